"""C02 — dump-then-load is the identity (v1 engine); loader generation never fails."""
from __future__ import annotations

import datetime as dt
import json
import os
import tempfile

from harness import common as C
from harness import gen, metasteps, model, ref

OPTS = dict(meta_keys=['key_transform_with_dump', 'marshal_date_time_as_iso', 'skip_defaults_off'],
            leaves=gen.LEAVES_DEFAULT)


PAIRS = [(None, 'NONE'), ('CAMEL', 'CAMEL'), ('PASCAL', 'PASCAL'), ('KEBAB', 'LISP'), ('SNAKE', 'SNAKE'), ('SNAKE', 'NONE'),
         ('AUTO', 'CAMEL'), ('AUTO', 'PASCAL'), ('AUTO', 'LISP'), ('AUTO', 'SNAKE'), ('AUTO', 'NONE'), ('C', None), ('A', None)]


def strip_shapes(t, indexed=False):
    """avoid the shapes recorded as known findings for the *correspondence* stream: the value-`None` annotation
    (a fixed-length tuple at an indexed position was avoided too until repair f3aedfc)"""
    k = t['k']
    if k == 'none':
        return {'k': 'optional', 'a': [{'k': 'int'}]}
    if k == 'optional':
        t['a'] = [strip_shapes(t['a'][0], indexed)]
        return t
    if k == 'cls':
        t['ftys'] = [[n, strip_shapes(ft, False)] for n, ft in t['ftys']]
        return t
    if k == 'namedtuple':
        t['fields'] = [[n, strip_shapes(ft, True), d] for n, ft, d in t['fields']]
        return t
    if k == 'typeddict':
        t['fields'] = [[n, strip_shapes(ft, True), r] for n, ft, r in t['fields']]
        return t
    if k == 'tuple':
        t['a'] = [strip_shapes(x, True) for x in t.get('a', [])]
        return t
    if k == 'union':
        t['a'] = [x if x['k'] == 'none' else strip_shapes(x, False) for x in t['a']]
        return t
    if 'a' in t:
        t['a'] = [strip_shapes(x, False) for x in t['a']]
    return t


def make_case(rng):
    o = gen.Opts(meta_keys=[], leaves=gen.LEAVES_DEFAULT + ['bytes', 'bytearray'], meta_prob=0.0, wizard_prob=0.8, py_wizard_prob=0.0)
    ty = gen.gen_cls(rng, rng.choice([0, 1, 2, 2, 3]), o)
    ty = strip_shapes(ty)
    unions = [(n, ft) for n, ft in ty['ftys'] if ft['k'] == 'union' and len(ft['a']) >= 2]
    if unions and rng.random() < 0.6:
        import copy as _copy
        n0, u0 = rng.choice(unions)
        u1 = _copy.deepcopy(u0)
        u1['a'] = list(reversed(u1['a']))
        # nested classes keep their identity (same definitions), only the argument order changes
        idx = next(i for i, f in enumerate(ty['info']['fields']) if f['name'] == n0) + 1
        ty['info']['fields'].insert(idx, {'name': n0 + '_rev'} if 'dflt' not in ty['info']['fields'][idx - 1] else
                                    dict(ty['info']['fields'][idx - 1], name=n0 + '_rev'))
        ty['ftys'].append([n0 + '_rev', u1])
    kc, dump = rng.choice(PAIRS)
    meta = {'v1': True}
    if kc is not None:
        meta['v1_key_case'] = kc
    if dump is not None:
        meta['key_transform_with_dump'] = dump
    ty['info']['meta'] = meta
    if ty['info']['wizard'] and rng.random() < 0.25:
        ty['info']['wizard'] = 'file'
    if rng.random() < 0.3:
        ty['info']['meta_bindings'] = spread_bindings(rng, ty)
    return ty


def _cls_nodes(t, out):
    k = t['k']
    if k == 'cls':
        out.setdefault(t['info']['name'], []).append(t)
        for _, ft in t['ftys']:
            _cls_nodes(ft, out)
    elif k in ('namedtuple', 'typeddict'):
        for f in t['fields']:
            _cls_nodes(f[1], out)
    else:
        for x in t.get('a', []):
            _cls_nodes(x, out)
    return out


NEUTRAL_ROOT = [{'v1': True}, {'skip_defaults': False}, {'v1_unsafe_parse_dataclass_in_union': False}, {'recursive': True}]


def spread_bindings(rng, ty):
    """DIMENSION the Meta of the main class / of nested classes / of tagged Union members arrives in two or more bindings, in any order
    (harness/metasteps.py): inner Meta, JSONPyWizard (implicit DumpMeta(key_transform='NONE') first, inner Meta second — for the main class only
    when it names its dump transform, for nested classes only below a main class that dumps keys as they are, so that the pair stays consistent),
    LoadMeta / DumpMeta / hand-made Metas bound after the class statement; a member's tag mostly in a later binding (sometimes overriding a stale
    one), the main class's (v1_key_case, dump transform) pair split over the bindings or overriding a stale pair given by an earlier one.
    The consistent pair and the tags are those of the merged result (later wins).  -> {class name: label}"""
    root_meta = ty['info']['meta']
    labels = {}
    for name, group in _cls_nodes(ty, {}).items():
        info = group[0]['info']
        if info.get('wizard', True) not in (True, False, 'file'):
            continue
        if group[0] is ty:
            if rng.random() < 0.7:
                stale = {'v1_key_case': rng.choice(['CAMEL', 'PASCAL', 'KEBAB', 'SNAKE', 'AUTO']), 'key_transform_with_dump': rng.choice(gen.CASES)}
                labels[name] = metasteps.distribute(rng, info, NEUTRAL_ROOT, stale=stale, late=(), py_ok='key_transform_with_dump' in root_meta,
                                                    together={'v1_key_case': {'v1': True}})
        elif rng.random() < 0.6:
            tag = (info.get('meta') or {}).get('tag')
            labels[name] = metasteps.distribute(rng, info, metasteps.NEUTRAL_V1, stale={'tag': tag + '~old'} if tag else None,
                                                avoid={'key_transform_with_dump', 'v1_key_case'},
                                                py_ok=root_meta.get('key_transform_with_dump') == 'NONE')
        for other in group[1:]:        # the same class referenced twice (reversed Union): one definition
            for k_ in ('wizard', 'meta', 'meta_steps'):
                if k_ in info:
                    other['info'][k_] = info[k_]
    return labels


def load_outcome(fn):
    try:
        return ('ok', fn())
    except Exception as e:
        return ('err', e)


def err_class(e):
    from dataclass_wizard.errors import ParseError, MissingFields, MissingData, UnknownKeysError, JSONWizardError
    if isinstance(e, MissingData):
        return ['MissingData']
    if isinstance(e, ParseError):
        return ['ParseError']
    if isinstance(e, MissingFields):
        return ['MissingFields', sorted(e.missing_fields)]
    if isinstance(e, UnknownKeysError):
        k = e.unknown_keys
        return ['UnknownKeysError', sorted([k] if isinstance(k, str) else list(k))]
    if isinstance(e, JSONWizardError):
        return [type(e).__name__]
    return ['raw']


def model_err(r):
    kind = r[0]
    if kind == 'ParseError':
        return ['ParseError']
    if kind == 'MissingData':
        return ['MissingData']
    if kind == 'MissingFields':
        return ['MissingFields', sorted(r[2])]
    if kind == 'UnknownKeysError':
        return ['UnknownKeysError', sorted(r[2])]
    if kind == 'raw':
        return ['raw']
    return [kind, r[1] if len(r) > 1 else None]


def compare_load(ctx, kind, case, impl_out, o, built):
    """impl_out = ('ok', obj) | ('err', exc); o = driver output line"""
    if o is None:
        return
    if 'err' in o and 'r' not in o:
        ctx.agree(kind, case, 'impl', {'driver_error': o['err']})
        return
    r = o['r']
    if model.has_miss(r):
        ctx.count('std_miss')
        return
    if 'err' in r and r['err'][0] == 'unsupported':
        ctx.count('model_unsupported')
        return
    if impl_out[0] == 'ok':
        impl = {'ok': model.canon_py(model.enc_py(impl_out[1], built, full_inst=False))}
    else:
        impl = {'err': err_class(impl_out[1])}
    if 'ok' in r:
        m = {'ok': model.canon_py(r['ok'])}
    else:
        m = {'err': model_err(r['err'])}
    ctx.agree(kind, case, impl, m)


def run(ctx: C.Ctx):
    rng = ctx.rng
    gen.SUBS = False
    from dataclass_wizard import asdict, fromdict
    ctx.rule = ('v1 engine: random class models over the C02 grammar (C01 grammar + bytes/bytearray), consistent (v1_key_case, dump transform) pairs incl. AUTO; the C01 grammar (depth ≤ 3, every leaf at every container position, Union of '
                'JSON-distinguishable members, tagged dataclass unions, NamedTuple/TypedDict/Enum/Literal; dump key transform in '
                '{unset,CAMEL,PASCAL,LISP,SNAKE,NONE}) with one conforming instance each: fromdict(asdict(x)), from_json(to_json(x)), '
                'from_list/list_to_json, YAML/TOML/JSON-file mixins when the format carries the payload; the load of the dumped '
                'document is also compared with the Lean model. Non-trivial = distinct (class model, instance).')
    n = ctx.quick(1200, 15000)
    reqs, pend = [], []
    for i in range(n):
        if ctx.done(i):
            break
        ty = make_case(rng)
        try:
            built = model.Built(ty)
        except Exception as e:
            ctx.count('build_error')
            ctx.notes.setdefault('build_errors', []).append(repr(e)[:200])
            continue
        try:
            neg = (i % 40 == 39)
            x = gen.gen_instance(rng, ty, built)
            for n_, ft_ in ty['ftys']:
                if n_.endswith('_rev') and ft_['k'] == 'union' and rng.random() < 0.7:
                    ks_ = [m['k'] for m in ft_['a']]
                    if 'str' in ks_:
                        setattr(x, n_, rng.choice(['ab', '', 'x y']))
                        setattr(x, n_[:-4], rng.choice(['ab', 'zz']))
                    elif 'dict' in ks_:
                        setattr(x, n_, {})
            if not ctx.begin_case(i):
                continue
            case = {'ty': ty, 'inst': repr(x)[:500]}
            ctx.seen('roundtrip', case)
            if ty['info'].get('meta_bindings'):
                ctx.seen('roundtrip:meta-in-steps', case)
            Cls = built.root
            src = dict(src=built.source)
            try:
                d = asdict(x)
            except Exception as e:
                ctx.fail('roundtrip:dump', case, f'asdict raised {e!r}', detail=src)
                continue
            key = _known_key(x)
            # -- fromdict(asdict(x))
            out = load_outcome(lambda: fromdict(Cls, d))
            check_rt(ctx, 'roundtrip:dict', case, out, x, src, key)
            # -- through JSON text
            try:
                jd = json.loads(json.dumps(d))
            except Exception:
                jd = None
            if jd is not None:
                out_j = load_outcome(lambda: fromdict(Cls, jd))
                check_rt(ctx, 'roundtrip:jsonified', case, out_j, x, src, key)
                st = model.StdTables()
                st.add_json(jd)
                reqs.append({'op': 'loadv1', 'ty': model.enc_ty(ty), 'doc': model.enc_j(jd), 'std': st.build()})
                pend.append((case, out_j, built))
            if hasattr(Cls, 'from_json'):
                out = load_outcome(lambda: Cls.from_json(x.to_json()))
                check_rt(ctx, 'roundtrip:json', case, out, x, src, key)
                out = load_outcome(lambda: Cls.from_list(json.loads(Cls.list_to_json([x, x]))))
                if out[0] == 'ok' and len(out[1]) == 2:
                    for y_ in out[1]:
                        check_rt(ctx, 'roundtrip:list', case, ('ok', y_), x, src, key)
                elif out[0] == 'ok':
                    ctx.fail('roundtrip:list', case, f'from_list(list_to_json([x, x])) returned {len(out[1])} elements', key=key, detail=src)
                else:
                    check_rt(ctx, 'roundtrip:list', case, out, x, src, key)
            text_formats(ctx, case, x, Cls, built, src, key)
        finally:
            built.close()
    shared_histories(ctx, reqs, pend)
    spellings(ctx, reqs, pend)
    inheritance_histories(ctx, reqs, pend)
    recursive_classes(ctx, reqs, pend)
    member_histories(ctx, reqs, pend)
    if ctx.model_available:
        outs = ctx.driver.run(reqs)
        for (case, impl_out, built), o in zip(pend, outs):
            compare_load(ctx, 'load-of-dump', case, impl_out, o, built)


# --------------------------------------------------------------------------- several main classes over shared nested classes

SH_BASE = 1_000_000
WRAPS = ('bare', 'bare', 'optional', 'list', 'dictval', 'vtuple', 'pair')


def _wrap(kind, t):
    T = model.T
    return {'bare': lambda: t, 'optional': lambda: T('optional', t), 'list': lambda: T('list', t), 'dictval': lambda: T('dict', T('str'), t),
            'vtuple': lambda: T('vtuple', t), 'pair': lambda: T('tuple', T('int'), t)}[kind]()


def _inject(rng, ty, ft):
    """add a required field of type ft to class model ty (before the first defaulted field)"""
    used = {f['name'] for f in ty['info']['fields']}
    name = gen.field_name(rng, used)
    fields = ty['info']['fields']
    idx = next((i for i, f in enumerate(fields) if f.get('dflt') is not None), len(fields))
    fields.insert(idx, {'name': name})
    ty['ftys'].append([name, ft])


def shared_case(rng):
    """(holder model, [main models], [shared nested models], steps): 2–3 main classes with the same (v1_key_case, dump
    transform) pair, each nesting one or two of 1–2 shared dataclasses (which have no Meta of their own) at a random
    position; steps = the order in which the main classes are round-tripped (with repeats); in some cases the shared
    classes carry the same settings and are round-tripped as main classes themselves, before / between the others"""
    o_n = gen.Opts(meta_keys=[], leaves=gen.LEAVES_DEFAULT + ['bytes', 'bytearray'], meta_prob=0.0, wizard_prob=0.3, py_wizard_prob=0.0,
                   allow_tagged_union=False)
    o_m = gen.Opts(meta_keys=[], leaves=gen.LEAVES_DEFAULT + ['bytes', 'bytearray'], meta_prob=0.0, wizard_prob=0.8, py_wizard_prob=0.0,
                   max_fields=3)
    shared = [strip_shapes(gen.gen_cls(rng, rng.choice([0, 0, 1]), o_n)) for _ in range(rng.randint(1, 2))]
    kc, dump = rng.choice(PAIRS)
    meta = {'v1': True}
    if kc is not None:
        meta['v1_key_case'] = kc
    if dump is not None:
        meta['key_transform_with_dump'] = dump
    mains = []
    for _ in range(rng.randint(2, 3)):
        ty = strip_shapes(gen.gen_cls(rng, rng.choice([0, 0, 1]), o_m))
        for _k in range(rng.randint(1, 2)):
            _inject(rng, ty, _wrap(rng.choice(WRAPS), rng.choice(shared)))
        ty['info']['meta'] = dict(meta)
        mains.append(ty)
    steps = [['main', rng.randrange(len(mains))] for _ in range(rng.randint(3, 6))]
    if len({k for _, k in steps}) < 2:
        steps[-1] = ['main', (steps[0][1] + 1) % len(mains)]
    if rng.random() < 0.4:
        # the shared classes carry the same settings themselves and are also used as main classes (first, or in between)
        for s_ in shared:
            s_['info']['meta'] = dict(meta)
        for q_ in range(len(steps)):
            if rng.random() < (0.6 if q_ == 0 else 0.25):
                steps[q_] = ['shared', rng.randrange(len(shared))]
    every = mains + shared       # the holder only serves to define all classes in one module; it is never loaded
    holder = {'k': 'cls', 'info': {'name': model.fresh('H'), 'fields': [{'name': f'm{i}'} for i in range(len(every))], 'wizard': False, 'meta': None},
              'ftys': [[f'm{i}', m] for i, m in enumerate(every)]}
    return holder, mains, shared, steps, (kc, dump)


def shared_histories(ctx, reqs, pend):
    """histories across several main classes: the v1 loader of a nested dataclass is generated once per main class that
    reaches it, and the per-class tables one generation leaves behind are input of the next"""
    import random
    from dataclass_wizard import asdict, fromdict
    rng = random.Random(f'{ctx.prop_id}:{ctx.seed}:shared')
    n = ctx.quick(150, 2500)
    ctx.rule += (' SHARED NESTED CLASSES: 2–3 main classes (one consistent (v1_key_case, dump transform) pair) nesting the same 1–2 dataclasses '
                 'at random positions, round-tripped in a random order with repeats (3–6 steps): every step fromdict(asdict(x)) == x, '
                 'through JSON text, and vs the Lean model.')
    for j in range(n):
        i = SH_BASE + j
        if ctx.done(i):
            break
        holder, mains, shared, steps, pair = shared_case(rng)
        try:
            built = model.Built(holder)
        except Exception as e:
            ctx.count('build_error')
            ctx.notes.setdefault('build_errors', []).append(repr(e)[:200])
            continue
        try:
            tys = [(mains if w == 'main' else shared)[k] for w, k in steps]
            xs = [gen.gen_instance(rng, t_, built) for t_ in tys]
            if not ctx.begin_case(i):
                continue
            src = dict(src=built.source)
            base = {'pair': list(pair), 'mains': [m['info']['name'] for m in mains], 'shared': [s_['info']['name'] for s_ in shared], 'steps': steps}
            ctx.seen('shared-history', dict(base, tys=mains, insts=[repr(x)[:200] for x in xs]))
            for step, (ty, x) in enumerate(zip(tys, xs)):
                Cls = built.get(ty['info']['name'])
                case = dict(base, step=step, ty=ty, inst=repr(x)[:500])
                try:
                    d = asdict(x)
                except Exception as e:
                    ctx.fail('shared-history:dump', case, f'step {step}: asdict raised {e!r}', detail=src)
                    continue
                key = _known_key(x)
                out = load_outcome(lambda: fromdict(Cls, d))
                pre = f'step {step} of {[w + str(k) for w, k in steps]} ({ty["info"]["name"]}, settings {pair}): '
                check_rt(ctx, 'shared-history:dict', case, out, x, src, key, pre)
                try:
                    jd = json.loads(json.dumps(d))
                except Exception:
                    continue
                out_j = load_outcome(lambda: fromdict(Cls, jd))
                check_rt(ctx, 'shared-history:jsonified', case, out_j, x, src, key, pre)
                st = model.StdTables()
                st.add_json(jd)
                reqs.append({'op': 'loadv1', 'ty': model.enc_ty(ty), 'doc': model.enc_j(jd), 'std': st.build()})
                pend.append((case, out_j, built))
        finally:
            built.close()


# --------------------------------------------------------------------------- v1 dataclasses related by inheritance

IH_BASE = 3_000_000


def _pair_meta(rng):
    kc, dump = rng.choice(PAIRS)
    meta = {'v1': True}
    if kc is not None:
        meta['v1_key_case'] = kc
    if dump is not None:
        meta['key_transform_with_dump'] = dump
    return meta, (kc, dump)


def _plain_steps(rng, meta):
    """Meta of a plain dataclass: one hand-made Meta, or DumpMeta (dump transform) and LoadMeta (v1, key case) in either order"""
    if rng.random() < 0.4 or 'key_transform_with_dump' not in meta:
        return [{'via': rng.choice(['base', 'load']), 'meta': dict(meta)}]
    st = [{'via': 'dump', 'meta': {'key_transform_with_dump': meta['key_transform_with_dump']}},
          {'via': 'load', 'meta': {k: v for k, v in meta.items() if k != 'key_transform_with_dump'}}]
    rng.shuffle(st)
    return st


def inherit_case(rng):
    """(holder, [class models], steps, style): a base dataclass and 1-3 classes derived from it (siblings; chains too for plain dataclasses),
    every derived class adding 1-3 fields of its own over the C02 grammar.
    style 'wizard': Base(JSONWizard) declares the inner Meta (v1, one consistent pair), the derived classes declare none and take the Meta of
    their immediate base class; 'plain': plain dataclasses, each class bound on its own with LoadMeta / DumpMeta / a hand-made Meta — the same
    consistent pair, or another consistent pair per class.
    Left out: a derived JSONWizard class that declares an inner Meta of its own (recorded finding, findings/ of C13: the base's Meta is bound over
    it) and grandchildren of the declaring JSONWizard class (they do not take the grandparent's Meta — DESIGN 9.5).
    steps: the order in which the classes are round-tripped, with repeats — a base class before the first load of a class derived from it, and
    the other way round."""
    T = model.T
    o = gen.Opts(meta_keys=[], leaves=gen.LEAVES_DEFAULT + ['bytes', 'bytearray'], meta_prob=0.0, wizard_prob=0.0, py_wizard_prob=0.0, max_fields=3)
    style = rng.choice(['wizard', 'plain', 'plain'])
    meta, pair = _pair_meta(rng)
    base = strip_shapes(gen.gen_cls(rng, rng.choice([0, 1, 1, 2]), o))
    base['info']['wizard'] = (rng.choice([True, True, 'file']) if style == 'wizard' else False)
    base['info']['meta'] = dict(meta)
    if style == 'plain':
        base['info']['meta_steps'] = _plain_steps(rng, meta)
    chain = [base]
    for _ in range(rng.randint(1, 3)):
        parent = base if style == 'wizard' else rng.choice(chain)
        own = strip_shapes(gen.gen_cls(rng, rng.choice([0, 0, 1, 2]), o))
        used = {f['name'] for f in parent['info']['fields']}
        pf = [dict(f) for f in parent['info']['fields']]
        need_dflt = any(f.get('dflt') is not None for f in pf)
        ofields, oftys = [], []
        for f, (_n, ft) in zip(own['info']['fields'], own['ftys']):
            f = dict(f)
            if f['name'] in used or f['name'].lower() in {u.lower() for u in used}:
                f['name'] = gen.field_name(rng, used)
            used.add(f['name'])
            if need_dflt and f.get('dflt') is None:
                d = gen.simple_default_for(rng, ft)
                if d is None:
                    ft, d = (ft if ft['k'] == 'optional' else T('optional', ft)), ['lit', None]
                f['dflt'], f['factory'] = d, d[0] != 'lit'
            ofields.append(f)
            oftys.append([f['name'], ft])
        m2 = dict(meta)
        # a derived class with a consistent pair of its own — unless one of its fields (inherited or own: its subclasses inherit them) holds a
        # dataclass: a nested class reached through two main classes with different key settings is the recorded finding
        # shared-nested-config-leak (findings/shared-nested-config-leak.py)
        if style == 'plain' and rng.random() < 0.35 and not any(_cls_nodes(ft_, {}) for _n, ft_ in list(parent['ftys']) + oftys):
            m2, _p = _pair_meta(rng)
        info = {'name': model.fresh('D'), 'fields': pf + ofields, 'wizard': parent['info']['wizard'], 'meta': m2,
                'meta_steps': [] if style == 'wizard' else _plain_steps(rng, m2), 'inherits': {'base': parent, 'n': len(pf)}}
        chain.append({'k': 'cls', 'info': info, 'ftys': [list(p) for p in parent['ftys']] + oftys})
    steps = [rng.randrange(len(chain)) for _ in range(rng.randint(3, 6))]
    derived = [q_ for q_ in range(1, len(chain))]
    if not any(s_ in derived for s_ in steps):
        steps[rng.randrange(1, len(steps))] = rng.choice(derived)
    if rng.random() < 0.6:
        # an ancestor of the first derived class in the history goes first
        fd = next(s_ for s_ in steps if s_ in derived)
        anc = chain.index(chain[fd]['info']['inherits']['base'])
        steps.insert(0, anc)
    holder = {'k': 'cls', 'info': {'name': model.fresh('H'), 'fields': [{'name': f'm{i}'} for i in range(len(chain))], 'wizard': False, 'meta': None},
              'ftys': [[f'm{i}', m] for i, m in enumerate(chain)]}
    return holder, chain, steps, style, pair


def inheritance_histories(ctx, reqs, pend):
    """v1 dataclasses related by inheritance: whatever a base class (or a sibling, or a subclass) has been used for before, fromdict(D, asdict(x))
    is a D with D's own fields, equal to x — the load function, the per-class tables and the function saved on a class belong to that class
    alone, not to the classes derived from it"""
    import random
    from dataclass_wizard import asdict, fromdict
    rng = random.Random(f'{ctx.prop_id}:{ctx.seed}:inherit')
    n = ctx.quick(150, 2500)
    ctx.rule += (' INHERITANCE: a base dataclass and 1-3 dataclasses derived from it (siblings / chains; JSONWizard hierarchy with the inner Meta '
                 'inherited from the immediate base, or plain dataclasses each bound with LoadMeta / DumpMeta / a hand-made Meta, same or different '
                 'consistent pairs), every class adding fields over the C02 grammar, round-tripped in a random order with repeats, base before '
                 'derived and derived before base: every step gives an instance of exactly that class equal to x (dict, JSON text, from_json), '
                 'and vs the Lean model of the flattened class.')
    for j in range(n):
        i = IH_BASE + j
        if ctx.done(i):
            break
        holder, chain, steps, style, pair = inherit_case(rng)
        try:
            built = model.Built(holder)
        except Exception as e:
            ctx.count('build_error')
            ctx.notes.setdefault('build_errors', []).append(repr(e)[:200])
            continue
        try:
            tys = [chain[k] for k in steps]
            xs = [gen.gen_instance(rng, t_, built) for t_ in tys]
            if not ctx.begin_case(i):
                continue
            src = dict(src=built.source)
            names = [c['info']['name'] for c in chain]
            parents = {c['info']['name']: c['info']['inherits']['base']['info']['name'] for c in chain[1:]}
            base = {'style': style, 'pair': list(pair), 'classes': names, 'derives_from': parents, 'steps': [names[k] for k in steps]}
            ctx.seen('inherit-history', dict(base, tys=chain[1:], insts=[repr(x)[:200] for x in xs]))
            first_derived = next(q_ for q_, k in enumerate(steps) if k > 0)
            ctx.seen('inherit-history:' + ('ancestor-first' if any(names[k] == parents[names[steps[first_derived]]] for k in steps[:first_derived])
                                           else 'derived-first'), base)
            for step, (ty, x) in enumerate(zip(tys, xs)):
                Cls = built.get(ty['info']['name'])
                case = dict(base, step=step, ty=ty, inst=repr(x)[:500])
                try:
                    d = asdict(x)
                except Exception as e:
                    ctx.fail('inherit-history:dump', case, f'step {step}: asdict raised {e!r}', detail=src)
                    continue
                key = _known_key(x)
                out = load_outcome(lambda: fromdict(Cls, d))
                pre = f'step {step} of {base["steps"]} ({ty["info"]["name"]}, {style}, derives_from {parents}): '
                check_rt(ctx, 'inherit-history:dict', case, out, x, src, key, pre)
                try:
                    jd = json.loads(json.dumps(d))
                except Exception:
                    continue
                out_j = load_outcome(lambda: fromdict(Cls, jd))
                check_rt(ctx, 'inherit-history:jsonified', case, out_j, x, src, key, pre)
                if hasattr(Cls, 'from_json'):
                    check_rt(ctx, 'inherit-history:json', case, load_outcome(lambda: Cls.from_json(x.to_json())), x, src, key, pre)
                st = model.StdTables()
                st.add_json(jd)
                reqs.append({'op': 'loadv1', 'ty': model.enc_ty(ty), 'doc': model.enc_j(jd), 'std': st.build()})
                pend.append((case, out_j, built))
        finally:
            built.close()


# --------------------------------------------------------------------------- self-referential / mutually recursive dataclasses

RC_BASE = 4_000_000


def _insert_field(rng, ty, ft, dflt):
    """add a field of type ft to class model ty at a random position among the required fields (dflt None) / among the fields with a
    default (so that other fields with a default come before AND after it)"""
    fields = ty['info']['fields']
    name = gen.field_name(rng, {f['name'] for f in fields})
    first_d = next((i for i, f in enumerate(fields) if f.get('dflt') is not None), len(fields))
    if dflt is None:
        fields.insert(rng.randint(0, first_d), {'name': name})
    else:
        fields.insert(rng.randint(first_d, len(fields)), {'name': name, 'dflt': dflt, 'factory': dflt[0] != 'lit'})
    ty['ftys'].append([name, ft])
    return name


def recursive_case(rng):
    """a class model that reaches itself again: directly (A -> A, one or two recursive fields), through a second class (A -> B -> A) or a
    third (A -> B -> C -> A); every step of the cycle goes through a random link (Optional, list, dict value, variadic tuple, deque,
    Optional[list], tuple[int, Optional], list[Optional]; the steps that do not close the cycle also bare), as a required field or with its
    natural default, at a random position among the class's other fields — which are drawn from the C02 grammar, most of them with a default.
    The main class carries a consistent (v1_key_case, dump transform) pair, in a part of the cases with skip_defaults; the other classes of the
    cycle have no Meta.  -> (class model of A, names of the classes on the cycle, form)"""
    o = gen.Opts(meta_keys=[], leaves=gen.LEAVES_DEFAULT + ['bytes', 'bytearray'], meta_prob=0.0, wizard_prob=0.8, py_wizard_prob=0.0, max_fields=3,
                 defaults_prob=0.65)
    form = rng.choice(['self', 'self', 'self2', 'mutual', 'mutual', 'chain3'])
    cyc = [strip_shapes(gen.gen_cls(rng, rng.choice([0, 0, 1]), o)) for _ in range({'self': 1, 'self2': 1, 'mutual': 2, 'chain3': 3}[form])]
    for c in cyc[1:]:
        if rng.random() < 0.6:
            c['info']['wizard'] = False
    a_name = cyc[0]['info']['name']

    def add(ty, target, closing):
        kind = rng.choice(gen.REC_LINKS if closing else gen.REC_LINKS + ['bare', 'bare'])
        if kind == 'bare':
            return _insert_field(rng, ty, target, None)
        return _insert_field(rng, ty, gen.rec_link(kind, target), gen.rec_default(kind) if rng.random() < 0.75 else None)
    # innermost class first: it closes the cycle with a reference to A by name
    add(cyc[-1], {'k': 'ref', 'name': a_name}, True)
    if form == 'self2':
        add(cyc[0], {'k': 'ref', 'name': a_name}, True)
    for q_ in range(len(cyc) - 2, -1, -1):
        add(cyc[q_], cyc[q_ + 1], False)
    ty = cyc[0]
    meta, pair = _pair_meta(rng)
    if rng.random() < 0.25:
        meta['skip_defaults'] = True
    ty['info']['meta'] = meta
    return ty, [c['info']['name'] for c in cyc], form, pair


def _levels(x, names):
    """(how many instances of the cycle's classes are nested in each other at most, how deep dataclass instances nest at all)"""
    import dataclasses
    import collections

    def walk(v):
        if dataclasses.is_dataclass(v) and not isinstance(v, type):
            sub = [walk(getattr(v, f.name)) for f in dataclasses.fields(v) if hasattr(v, f.name)]
            c = max([s_[0] for s_ in sub], default=0)
            d = max([s_[1] for s_ in sub], default=0)
            return (c + (type(v).__name__ in names), d + 1)
        if isinstance(v, dict):
            sub = [walk(y) for y in v.values()]
        elif isinstance(v, (list, tuple, set, frozenset, collections.deque)):
            sub = [walk(y) for y in v]
        else:
            return (0, 0)
        return (max([s_[0] for s_ in sub], default=0), max([s_[1] for s_ in sub], default=0))
    return walk(x)


def recursive_classes(ctx, reqs, pend):
    """recursive class models: the generated load function of a class is entered again (for the child object) while an outer call of the
    same function is still collecting its own constructor arguments; dump-then-load must give back every level with ITS values"""
    import random
    from dataclass_wizard import asdict, fromdict
    rng = random.Random(f'{ctx.prop_id}:{ctx.seed}:recursive')
    n = ctx.quick(300, 5000)
    ctx.rule += (' RECURSIVE CLASSES: self-referential (one or two recursive fields), mutually recursive (A -> B -> A) and three-class cycles, every '
                 'step through Optional / list / dict value / variadic tuple / deque / Optional[list] / tuple[int, Optional] / list[Optional] / bare, '
                 'required or with the natural default, at a random position among 1-3 other fields per class over the C02 grammar (most with a '
                 'default, before and after the recursive field), consistent (v1_key_case, dump transform) pairs, with and without skip_defaults; '
                 'instances 2-5 levels deep with independent random values per level: fromdict(asdict(x)), JSON text, from_json / from_list, and '
                 'the load vs the Lean model of the class model unrolled to the depth of the instance.')
    for j in range(n):
        i = RC_BASE + j
        if ctx.done(i):
            break
        ty, names, form, pair = recursive_case(rng)
        try:
            built = model.Built(ty)
        except Exception as e:
            ctx.count('build_error')
            ctx.notes.setdefault('build_errors', []).append(repr(e)[:200])
            continue
        try:
            for _try in range(4):
                x = gen.gen_instance(rng, ty, built, size=rng.choice([3, 3, 4]), use_defaults_prob=0.15)
                lv, depth = _levels(x, set(names))
                if lv > len(names):
                    break
            if not ctx.begin_case(i):
                continue
            case = {'ty': ty, 'inst': repr(x)[:700], 'form': form, 'cycle': names, 'levels': lv}
            ctx.seen('recursive:' + form, case, nontrivial=lv > len(names))
            Cls = built.root
            src = dict(src=built.source)
            try:
                d = asdict(x)
            except Exception as e:
                ctx.fail('recursive:dump', case, f'asdict raised {e!r}', detail=src)
                continue
            key = _known_key(x)
            pre = f'{form} cycle {names}, {lv} levels: '
            check_rt(ctx, 'recursive:dict', case, load_outcome(lambda: fromdict(Cls, d)), x, src, key, pre)
            try:
                jd = json.loads(json.dumps(d))
            except Exception:
                jd = None
            if jd is not None:
                out_j = load_outcome(lambda: fromdict(Cls, jd))
                check_rt(ctx, 'recursive:jsonified', case, out_j, x, src, key, pre)
                st = model.StdTables()
                st.add_json(jd)
                reqs.append({'op': 'loadv1', 'ty': model.enc_ty(model.unroll(ty, depth)), 'doc': model.enc_j(jd), 'std': st.build()})
                pend.append((case, out_j, built))
            if hasattr(Cls, 'from_json'):
                check_rt(ctx, 'recursive:json', case, load_outcome(lambda: Cls.from_json(x.to_json())), x, src, key, pre)
                out = load_outcome(lambda: Cls.from_list(json.loads(Cls.list_to_json([x, x]))))
                if out[0] == 'ok' and len(out[1]) == 2:
                    for y_ in out[1]:
                        check_rt(ctx, 'recursive:list', case, ('ok', y_), x, src, key, pre)
                else:
                    check_rt(ctx, 'recursive:list', case, out if out[0] == 'err' else ('err', ValueError(f'{len(out[1])} elements')), x, src, key, pre)
        finally:
            built.close()


# --------------------------------------------------------------------------- Union members used on their own before / between uses of the main class

MH_BASE = 5_000_000
UNION_WRAPS = ['bare', 'bare', 'optional', 'list', 'dictval', 'list-of-optional', 'vtuple']
TAGGING = ['own-tags', 'own-tags+tag-key', 'auto', 'auto+tag-key']


def member_case(rng):
    """a v1 main class with a field holding a Union of 2-3 dataclasses (bare, Optional, list, dict value, list of Optional, variadic tuple)
    next to 0-3 other fields, and a history in which the member classes are also serialised ON THEIR OWN (asdict / to_dict / to_json) before
    the main class is serialised for the first time, or between two uses of it.
    tagging: the members declare a tag of their own and the main class leaves the tag key alone / sets tag_key; or the members declare no tag
    and the main class sets auto_assign_tags (/ and tag_key).
    member style 'plain': no Meta besides the tag, one-word field names (used on its own the class is dumped under the default transform, which
    leaves such names alone — under PASCAL it does not, so that pair is left out: recorded finding shared-nested-config-leak); 'same-settings':
    the member declares the main class's own (v1, v1_key_case, dump transform) itself, any field names."""
    o_m = gen.Opts(meta_keys=[], leaves=gen.LEAVES_DEFAULT + ['bytes', 'bytearray'], meta_prob=0.0, wizard_prob=0.5, py_wizard_prob=0.0, max_fields=2,
                   allow_cls=False)
    o_r = gen.Opts(meta_keys=[], leaves=gen.LEAVES_DEFAULT + ['bytes', 'bytearray'], meta_prob=0.0, wizard_prob=0.8, py_wizard_prob=0.0, max_fields=3,
                   allow_tagged_union=False)
    tagging = rng.choice(TAGGING)
    style = rng.choice(['plain', 'same-settings'])
    meta, pair = _pair_meta(rng)
    while style == 'plain' and 'PASCAL' in pair:
        meta, pair = _pair_meta(rng)
    members = []
    for _ in range(rng.randint(2, 3)):
        m = strip_shapes(gen.gen_cls(rng, rng.choice([0, 0, 1]), o_m))
        if style == 'plain':
            words = rng.sample(gen.WORDS, len(m['info']['fields']))
            ren = {f['name']: w for f, w in zip(m['info']['fields'], words)}
            for f in m['info']['fields']:
                f['name'] = ren[f['name']]
            m['ftys'] = [[ren[n_], ft] for n_, ft in m['ftys']]
        mm = dict(meta) if style == 'same-settings' else {}
        if tagging.startswith('own-tags'):
            mm['tag'] = model.fresh('tag')
        m['info']['meta'] = mm or None
        members.append(m)
    ty = strip_shapes(gen.gen_cls(rng, rng.choice([0, 0, 1]), o_r))
    if rng.random() < 0.3:
        ty['info']['fields'], ty['ftys'] = [], []
    wrap = rng.choice(UNION_WRAPS)
    T = model.T
    u = T('union', *members)
    ft = {'bare': lambda: u, 'optional': lambda: T('union', *(members + [T('none')])), 'list': lambda: T('list', u), 'dictval': lambda: T('dict', T('str'), u),
          'list-of-optional': lambda: T('list', T('union', *(members + [T('none')]))), 'vtuple': lambda: T('vtuple', u)}[wrap]()
    dflt = {'optional': ['lit', None], 'list': ['list'], 'dictval': ['dict']}.get(wrap) if rng.random() < 0.5 else None
    uname = _insert_field(rng, ty, ft, dflt)
    if tagging.endswith('tag-key'):
        meta['tag_key'] = rng.choice(['type', 'kind', 'my tag', '__tag__', 'tagKey'])
    if tagging.startswith('auto'):
        meta['auto_assign_tags'] = True
    ty['info']['meta'] = meta
    # history
    alone = lambda: ['alone', rng.randrange(len(members)), rng.choice(['asdict', 'asdict', 'to_dict', 'to_json'])]
    order = rng.choice(['member-first', 'member-first', 'member-first', 'root-first'])
    steps = ([alone() for _ in range(rng.randint(1, len(members)))] if order == 'member-first' else []) + [['root']]
    for _ in range(rng.randint(0, 2)):
        steps += [alone() for _ in range(rng.randint(0, 2))] + [['root']]
    return ty, members, uname, wrap, tagging, style, pair, order, steps


def _union_value(rng, wrap, members, built, prefer):
    insts = [gen.gen_instance(rng, m, built) for m in members]
    rng.shuffle(insts)
    first = next((v for v in insts if type(v).__name__ in prefer), insts[0]) if rng.random() < 0.8 else insts[0]
    if wrap in ('bare', 'optional'):
        return first
    if wrap == 'dictval':
        return {f'k{q_}': v for q_, v in enumerate(insts)}
    if wrap == 'list-of-optional':
        insts.insert(rng.randint(0, len(insts)), None)
    return tuple(insts) if wrap == 'vtuple' else insts


def member_histories(ctx, reqs, pend):
    """what a class was used for on its own must not change what it is dumped as below a main class: the tag (also one the main class
    assigns) under the main class's tag key, so that the main class's loader finds the member again"""
    import random
    from dataclass_wizard import asdict, fromdict
    rng = random.Random(f'{ctx.prop_id}:{ctx.seed}:members')
    n = ctx.quick(250, 4000)
    ctx.rule += (' UNION MEMBERS ON THEIR OWN: a v1 main class holding a Union of 2-3 dataclasses (bare / Optional / list / dict value / list of Optional / '
                 'variadic tuple) × tags declared by the members or assigned by the main class (auto_assign_tags) × tag key default or set by the main '
                 'class × members Meta-less or declaring the same (v1_key_case, dump transform) × a history in which members are serialised on their '
                 'own (asdict / to_dict / to_json) before the first use of the main class, or between two uses: every round trip of the main class '
                 'is the identity (dict, JSON text, from_json).')
    for j in range(n):
        i = MH_BASE + j
        if ctx.done(i):
            break
        ty, members, uname, wrap, tagging, style, pair, order, steps = member_case(rng)
        try:
            built = model.Built(ty)
        except Exception as e:
            ctx.count('build_error')
            ctx.notes.setdefault('build_errors', []).append(repr(e)[:200])
            continue
        try:
            mnames = [m['info']['name'] for m in members]
            plan, prefer = [], set()
            for st_ in steps:
                if st_[0] == 'alone':
                    plan.append(gen.gen_instance(rng, members[st_[1]], built))
                    prefer.add(mnames[st_[1]])
                else:
                    x = gen.gen_instance(rng, ty, built)
                    setattr(x, uname, _union_value(rng, wrap, members, built, prefer))
                    plan.append(x)
            if not ctx.begin_case(i):
                continue
            base = {'ty': ty, 'tagging': tagging, 'member_style': style, 'pair': list(pair), 'wrap': wrap, 'members': mnames,
                    'steps': [[s_[0]] + ([mnames[s_[1]], s_[2]] if s_[0] == 'alone' else []) for s_ in steps]}
            ctx.seen('member-history:' + order, dict(base, insts=[repr(v)[:200] for v in plan]))
            ctx.count('member-history:' + tagging)
            Cls = built.root
            src = dict(src=built.source)
            for step, (st_, x) in enumerate(zip(steps, plan)):
                case = dict(base, step=step, inst=repr(x)[:500])
                pre = f'step {step} of {base["steps"]} ({tagging}, members {style}, {wrap}): '
                if st_[0] == 'alone':
                    how = st_[2] if hasattr(x, st_[2]) else 'asdict'
                    try:
                        asdict(x) if how == 'asdict' else getattr(x, how)()
                    except Exception as e:
                        ctx.fail('member-history:alone', case, f'{pre}{how} of the member instance on its own raised {e!r}', detail=src)
                    src['src'] += f'\n{how}(<{type(x).__name__} instance>)   # on its own'
                    continue
                src['src'] += f'\nfromdict({ty["info"]["name"]}, asdict(x))'
                try:
                    d = asdict(x)
                except Exception as e:
                    ctx.fail('member-history:dump', case, f'{pre}asdict raised {e!r}', detail=src)
                    continue
                key = _known_key(x)
                check_rt(ctx, 'member-history:dict', case, load_outcome(lambda: fromdict(Cls, d)), x, src, key, pre)
                try:
                    jd = json.loads(json.dumps(d))
                except Exception:
                    continue
                out_j = load_outcome(lambda: fromdict(Cls, jd))
                check_rt(ctx, 'member-history:jsonified', case, out_j, x, src, key, pre)
                st = model.StdTables()
                st.add_json(jd)
                reqs.append({'op': 'loadv1', 'ty': model.enc_ty(ty), 'doc': model.enc_j(jd), 'std': st.build()})
                pend.append((case, out_j, built))
                if hasattr(Cls, 'from_json'):
                    check_rt(ctx, 'member-history:json', case, load_outcome(lambda: Cls.from_json(x.to_json())), x, src, key, pre)
        finally:
            built.close()


def _union_container_first(t):
    """is this a Union with a sequence member listed before a str / dict member"""
    k = t['k']
    if k == 'union':
        seen_seq = False
        for m in t['a']:
            if m['k'] in ('list', 'set', 'frozenset', 'deque', 'vtuple', 'tuple'):
                seen_seq = True
            elif m['k'] in ('str', 'dict', 'defaultdict', 'ordereddict', 'typeddict') and seen_seq:
                return True
    return False


def _known_key(x):
    """known-finding attribution: does the instance contain a negative timedelta?"""
    import dataclasses
    import collections

    def walk(v):
        if isinstance(v, dt.timedelta):
            return v < dt.timedelta(0)
        if dataclasses.is_dataclass(v) and not isinstance(v, type):
            return any(walk(getattr(v, f.name)) for f in dataclasses.fields(v) if hasattr(v, f.name))
        if isinstance(v, dict):
            return any(walk(k) or walk(y) for k, y in v.items())
        if isinstance(v, (list, tuple, set, frozenset, collections.deque)):
            return any(walk(y) for y in v)
        return False
    return 'neg-timedelta' if walk(x) else None


def check_rt(ctx, kind, case, out, x, src, key, prefix=''):
    if out[0] == 'err':
        ctx.fail(kind, case, f'{prefix}load of the dumped instance raised {type(out[1]).__name__}: {str(out[1])[:300]}', key=key, detail=src)
    elif not ref.same_typed(out[1], x):
        where = ref.first_diff(out[1], x)
        if key is None:
            u = ref.union_on_path(case['ty'], ref.diff_steps(x, out[1]), x)
            if u is not None and _union_container_first(u):
                import re as _re
                if _re.search(r': (list|set|frozenset|deque|tuple) .* vs (str|dict|OrderedDict|defaultdict) ', where):
                    key = 'v1-union-container-try-parse'
        ctx.fail(kind, case, f'{prefix}load(dump(x)) differs from x at {where} (loaded vs original)'[:1500], key=key, detail=src)


def text_formats(ctx, case, x, Cls, built, src, key):
    """YAML / TOML / JSON-file mixins (the root class derives from the mixin)."""
    from dataclass_wizard import asdict
    import yaml
    import tomllib
    d = asdict(x)
    try:
        jd = json.loads(json.dumps(d))
    except Exception:
        return
    if hasattr(Cls, 'to_yaml'):
        try:
            txt = x.to_yaml()
            carriable = yaml.safe_load(txt) == jd and not _has_nan(jd)
        except Exception:
            carriable = False
        ctx.count('yaml_carriable' if carriable else 'yaml_not_carriable')
        if carriable:
            check_rt(ctx, 'roundtrip:yaml', case, load_outcome(lambda: Cls.from_yaml(txt)), x, src, key)
    if hasattr(Cls, 'to_toml'):
        try:
            txt = x.to_toml()
            carriable = tomllib.loads(txt) == jd and not _has_nan(jd) and not isinstance(jd.get('items'), list)
        except Exception:
            carriable = False
        ctx.count('toml_carriable' if carriable else 'toml_not_carriable')
        if carriable:
            check_rt(ctx, 'roundtrip:toml', case, load_outcome(lambda: Cls.from_toml(txt)), x, src, key)
    if hasattr(Cls, 'to_json_file'):
        fd, path = tempfile.mkstemp(suffix='.json', prefix='dwverif')
        os.close(fd)
        try:
            x.to_json_file(path)
            check_rt(ctx, 'roundtrip:json-file', case, load_outcome(lambda: Cls.from_json_file(path)), x, src, key)
        finally:
            os.unlink(path)


def _has_nan(v):
    if isinstance(v, float):
        return v != v
    if isinstance(v, dict):
        return any(_has_nan(x) for x in v.values())
    if isinstance(v, list):
        return any(_has_nan(x) for x in v)
    return False




# --------------------------------------------------------------------------- transparent spellings of the same annotation

SP_BASE = 2_000_000


def respell(rng, t, p=0.3, top=True, qualified=False):
    """the same type, spelled through PEP 695 aliases (`type X = ...`), `Annotated[.., 'note']` and `Required[..]` /
    `NotRequired[..]` qualifiers at random positions of any depth, stacked in any order; returns the respelled node and the
    number of wrappers added.
    Left out (recorded finding, findings/v1-wrapped-union-member-and-defaultdict-value.py): a wrapper directly around a Union
    member or around the value type of a DefaultDict."""
    T = model.T
    k = t['k']
    n = 0
    if k == 'cls':
        new = []
        for nme, ft in t['ftys']:
            ft2, m = respell(rng, ft, p, False)
            n += m
            new.append([nme, ft2])
        t['ftys'] = new
    elif k == 'namedtuple':
        for f in t['fields']:
            f[1], m = respell(rng, f[1], p, False)
            n += m
    elif k == 'typeddict':
        if rng.random() < 0.5:
            t['req_spelled'] = True
        for f in t['fields']:
            f[1], m = respell(rng, f[1], p, False, qualified=(not f[2]) or bool(t.get('req_spelled')))
            n += m
    elif 'a' in t:
        new = []
        for ix, x in enumerate(t['a']):
            bare = k == 'union' or (k == 'defaultdict' and ix == 1)
            x2, m = respell(rng, x, p, bare)
            n += m
            new.append(x2)
        t['a'] = new
    if top or k == 'none':
        return t, n
    # wrappers in any order and to any depth (an alias of an alias, an alias of Annotated[..], Annotated[..] below a qualifier):
    # stacked wrappers made loader generation fail until repair 41103de
    while rng.random() < p:
        if rng.random() < 0.5:
            t = T('alias', t, name=model.fresh('Al'))
        else:
            t = T('annotated', t, note=rng.choice(['note', 'primary key', '']))
        n += 1
    return t, n


def spellings(ctx, reqs, pend):
    """the round trip again, on class models whose annotations are respelled (see `respell`); the oracle and the Lean
    model see the plain type: a spelling never changes what is loaded, and loader generation never fails"""
    import random
    from dataclass_wizard import asdict, fromdict
    rng = random.Random(f'{ctx.prop_id}:{ctx.seed}:spell')
    n = ctx.quick(250, 4000)
    ctx.rule += (' SPELLINGS: the same class models with PEP 695 `type X = ...` aliases, Annotated[.., note] and Required / NotRequired '
                 'qualifiers wrapped around random positions (nested in each other): same round trip, compared with the model of the plain type.')
    for j in range(n):
        i = SP_BASE + j
        if ctx.done(i):
            break
        spelled = make_case(rng)
        spelled, nwrap = respell(rng, spelled, rng.choice([0.2, 0.35, 0.5]))
        ty = model.plain_ty(spelled)
        try:
            built = model.Built(spelled)
        except Exception as e:
            ctx.count('build_error')
            ctx.notes.setdefault('build_errors', []).append(repr(e)[:200])
            continue
        try:
            x = gen.gen_instance(rng, ty, built)
            if not ctx.begin_case(i):
                continue
            case = {'ty': ty, 'inst': repr(x)[:500], 'wrappers': nwrap}
            ctx.seen('spelling', case, nontrivial=nwrap > 0)
            Cls = built.root
            src = dict(src=built.source)
            try:
                d = asdict(x)
            except Exception as e:
                ctx.fail('spelling:dump', case, f'asdict raised {e!r}', detail=src)
                continue
            key = _known_key(x)
            out = load_outcome(lambda: fromdict(Cls, d))
            check_rt(ctx, 'spelling:dict', case, out, x, src, key)
            try:
                jd = json.loads(json.dumps(d))
            except Exception:
                continue
            out_j = load_outcome(lambda: fromdict(Cls, jd))
            check_rt(ctx, 'spelling:jsonified', case, out_j, x, src, key)
            st = model.StdTables()
            st.add_json(jd)
            reqs.append({'op': 'loadv1', 'ty': model.enc_ty(ty), 'doc': model.enc_j(jd), 'std': st.build()})
            pend.append((case, out_j, built))
            if hasattr(Cls, 'from_json'):
                out = load_outcome(lambda: Cls.from_json(x.to_json()))
                check_rt(ctx, 'spelling:json', case, out, x, src, key)
        finally:
            built.close()
