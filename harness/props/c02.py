"""C02 — dump-then-load is the identity (v1 engine); loader generation never fails."""
from __future__ import annotations

import datetime as dt
import json
import os
import tempfile

from harness import common as C
from harness import gen, model, ref

OPTS = dict(meta_keys=['key_transform_with_dump', 'marshal_date_time_as_iso', 'skip_defaults_off'],
            leaves=gen.LEAVES_DEFAULT)


PAIRS = [(None, 'NONE'), ('CAMEL', 'CAMEL'), ('PASCAL', 'PASCAL'), ('KEBAB', 'LISP'), ('SNAKE', 'SNAKE'), ('SNAKE', 'NONE'),
         ('AUTO', 'CAMEL'), ('AUTO', 'PASCAL'), ('AUTO', 'LISP'), ('AUTO', 'SNAKE'), ('AUTO', 'NONE'), ('C', None), ('A', None)]


def strip_shapes(t, indexed=False):
    """avoid the shapes recorded as known findings for the *correspondence* stream: the value-`None` annotation
    (a fixed-length tuple at an indexed position was avoided too until repair f3aedfc)"""
    k = t['k']
    if k == 'none':
        return {'k': 'optional', 'a': [{'k': 'int'}]}
    if k == 'optional':
        t['a'] = [strip_shapes(t['a'][0], indexed)]
        return t
    if k == 'cls':
        t['ftys'] = [[n, strip_shapes(ft, False)] for n, ft in t['ftys']]
        return t
    if k == 'namedtuple':
        t['fields'] = [[n, strip_shapes(ft, True), d] for n, ft, d in t['fields']]
        return t
    if k == 'typeddict':
        t['fields'] = [[n, strip_shapes(ft, True), r] for n, ft, r in t['fields']]
        return t
    if k == 'tuple':
        t['a'] = [strip_shapes(x, True) for x in t.get('a', [])]
        return t
    if k == 'union':
        t['a'] = [x if x['k'] == 'none' else strip_shapes(x, False) for x in t['a']]
        return t
    if 'a' in t:
        t['a'] = [strip_shapes(x, False) for x in t['a']]
    return t


def make_case(rng):
    o = gen.Opts(meta_keys=[], leaves=gen.LEAVES_DEFAULT + ['bytes', 'bytearray'], meta_prob=0.0, wizard_prob=0.8, py_wizard_prob=0.0)
    ty = gen.gen_cls(rng, rng.choice([0, 1, 2, 2, 3]), o)
    ty = strip_shapes(ty)
    unions = [(n, ft) for n, ft in ty['ftys'] if ft['k'] == 'union' and len(ft['a']) >= 2]
    if unions and rng.random() < 0.6:
        import copy as _copy
        n0, u0 = rng.choice(unions)
        u1 = _copy.deepcopy(u0)
        u1['a'] = list(reversed(u1['a']))
        # nested classes keep their identity (same definitions), only the argument order changes
        idx = next(i for i, f in enumerate(ty['info']['fields']) if f['name'] == n0) + 1
        ty['info']['fields'].insert(idx, {'name': n0 + '_rev'} if 'dflt' not in ty['info']['fields'][idx - 1] else
                                    dict(ty['info']['fields'][idx - 1], name=n0 + '_rev'))
        ty['ftys'].append([n0 + '_rev', u1])
    kc, dump = rng.choice(PAIRS)
    meta = {'v1': True}
    if kc is not None:
        meta['v1_key_case'] = kc
    if dump is not None:
        meta['key_transform_with_dump'] = dump
    ty['info']['meta'] = meta
    if ty['info']['wizard'] and rng.random() < 0.25:
        ty['info']['wizard'] = 'file'
    return ty


def load_outcome(fn):
    try:
        return ('ok', fn())
    except Exception as e:
        return ('err', e)


def err_class(e):
    from dataclass_wizard.errors import ParseError, MissingFields, MissingData, UnknownKeysError, JSONWizardError
    if isinstance(e, MissingData):
        return ['MissingData']
    if isinstance(e, ParseError):
        return ['ParseError']
    if isinstance(e, MissingFields):
        return ['MissingFields', sorted(e.missing_fields)]
    if isinstance(e, UnknownKeysError):
        k = e.unknown_keys
        return ['UnknownKeysError', sorted([k] if isinstance(k, str) else list(k))]
    if isinstance(e, JSONWizardError):
        return [type(e).__name__]
    return ['raw']


def model_err(r):
    kind = r[0]
    if kind == 'ParseError':
        return ['ParseError']
    if kind == 'MissingData':
        return ['MissingData']
    if kind == 'MissingFields':
        return ['MissingFields', sorted(r[2])]
    if kind == 'UnknownKeysError':
        return ['UnknownKeysError', sorted(r[2])]
    if kind == 'raw':
        return ['raw']
    return [kind, r[1] if len(r) > 1 else None]


def compare_load(ctx, kind, case, impl_out, o, built):
    """impl_out = ('ok', obj) | ('err', exc); o = driver output line"""
    if o is None:
        return
    if 'err' in o and 'r' not in o:
        ctx.agree(kind, case, 'impl', {'driver_error': o['err']})
        return
    r = o['r']
    if model.has_miss(r):
        ctx.count('std_miss')
        return
    if 'err' in r and r['err'][0] == 'unsupported':
        ctx.count('model_unsupported')
        return
    if impl_out[0] == 'ok':
        impl = {'ok': model.canon_py(model.enc_py(impl_out[1], built, full_inst=False))}
    else:
        impl = {'err': err_class(impl_out[1])}
    if 'ok' in r:
        m = {'ok': model.canon_py(r['ok'])}
    else:
        m = {'err': model_err(r['err'])}
    ctx.agree(kind, case, impl, m)


def run(ctx: C.Ctx):
    rng = ctx.rng
    gen.SUBS = False
    from dataclass_wizard import asdict, fromdict
    ctx.rule = ('v1 engine: random class models over the C02 grammar (C01 grammar + bytes/bytearray), consistent (v1_key_case, dump transform) pairs incl. AUTO; the C01 grammar (depth ≤ 3, every leaf at every container position, Union of '
                'JSON-distinguishable members, tagged dataclass unions, NamedTuple/TypedDict/Enum/Literal; dump key transform in '
                '{unset,CAMEL,PASCAL,LISP,SNAKE,NONE}) with one conforming instance each: fromdict(asdict(x)), from_json(to_json(x)), '
                'from_list/list_to_json, YAML/TOML/JSON-file mixins when the format carries the payload; the load of the dumped '
                'document is also compared with the Lean model. Non-trivial = distinct (class model, instance).')
    n = ctx.quick(1200, 15000)
    reqs, pend = [], []
    for i in range(n):
        if ctx.done(i):
            break
        ty = make_case(rng)
        try:
            built = model.Built(ty)
        except Exception as e:
            ctx.count('build_error')
            ctx.notes.setdefault('build_errors', []).append(repr(e)[:200])
            continue
        try:
            neg = (i % 40 == 39)
            x = gen.gen_instance(rng, ty, built)
            for n_, ft_ in ty['ftys']:
                if n_.endswith('_rev') and ft_['k'] == 'union' and rng.random() < 0.7:
                    ks_ = [m['k'] for m in ft_['a']]
                    if 'str' in ks_:
                        setattr(x, n_, rng.choice(['ab', '', 'x y']))
                        setattr(x, n_[:-4], rng.choice(['ab', 'zz']))
                    elif 'dict' in ks_:
                        setattr(x, n_, {})
            if not ctx.begin_case(i):
                continue
            case = {'ty': ty, 'inst': repr(x)[:500]}
            ctx.seen('roundtrip', case)
            Cls = built.root
            src = dict(src=built.source)
            try:
                d = asdict(x)
            except Exception as e:
                ctx.fail('roundtrip:dump', case, f'asdict raised {e!r}', detail=src)
                continue
            key = _known_key(x)
            # -- fromdict(asdict(x))
            out = load_outcome(lambda: fromdict(Cls, d))
            check_rt(ctx, 'roundtrip:dict', case, out, x, src, key)
            # -- through JSON text
            try:
                jd = json.loads(json.dumps(d))
            except Exception:
                jd = None
            if jd is not None:
                out_j = load_outcome(lambda: fromdict(Cls, jd))
                check_rt(ctx, 'roundtrip:jsonified', case, out_j, x, src, key)
                st = model.StdTables()
                st.add_json(jd)
                reqs.append({'op': 'loadv1', 'ty': model.enc_ty(ty), 'doc': model.enc_j(jd), 'std': st.build()})
                pend.append((case, out_j, built))
            if hasattr(Cls, 'from_json'):
                out = load_outcome(lambda: Cls.from_json(x.to_json()))
                check_rt(ctx, 'roundtrip:json', case, out, x, src, key)
                out = load_outcome(lambda: Cls.from_list(json.loads(Cls.list_to_json([x, x]))))
                if out[0] == 'ok' and len(out[1]) == 2:
                    for y_ in out[1]:
                        check_rt(ctx, 'roundtrip:list', case, ('ok', y_), x, src, key)
                elif out[0] == 'ok':
                    ctx.fail('roundtrip:list', case, f'from_list(list_to_json([x, x])) returned {len(out[1])} elements', key=key, detail=src)
                else:
                    check_rt(ctx, 'roundtrip:list', case, out, x, src, key)
            text_formats(ctx, case, x, Cls, built, src, key)
        finally:
            built.close()
    if ctx.model_available:
        outs = ctx.driver.run(reqs)
        for (case, impl_out, built), o in zip(pend, outs):
            compare_load(ctx, 'load-of-dump', case, impl_out, o, built)


def _union_container_first(t):
    """is this a Union with a sequence member listed before a str / dict member"""
    k = t['k']
    if k == 'union':
        seen_seq = False
        for m in t['a']:
            if m['k'] in ('list', 'set', 'frozenset', 'deque', 'vtuple', 'tuple'):
                seen_seq = True
            elif m['k'] in ('str', 'dict', 'defaultdict', 'ordereddict', 'typeddict') and seen_seq:
                return True
    return False


def _known_key(x):
    """known-finding attribution: does the instance contain a negative timedelta?"""
    import dataclasses
    import collections

    def walk(v):
        if isinstance(v, dt.timedelta):
            return v < dt.timedelta(0)
        if dataclasses.is_dataclass(v) and not isinstance(v, type):
            return any(walk(getattr(v, f.name)) for f in dataclasses.fields(v) if hasattr(v, f.name))
        if isinstance(v, dict):
            return any(walk(k) or walk(y) for k, y in v.items())
        if isinstance(v, (list, tuple, set, frozenset, collections.deque)):
            return any(walk(y) for y in v)
        return False
    return 'neg-timedelta' if walk(x) else None


def check_rt(ctx, kind, case, out, x, src, key):
    if out[0] == 'err':
        ctx.fail(kind, case, f'load of the dumped instance raised {type(out[1]).__name__}: {str(out[1])[:300]}', key=key, detail=src)
    elif not ref.same_typed(out[1], x):
        where = ref.first_diff(out[1], x)
        if key is None:
            u = ref.union_on_path(case['ty'], ref.diff_steps(x, out[1]), x)
            if u is not None and _union_container_first(u):
                import re as _re
                if _re.search(r': (list|set|frozenset|deque|tuple) .* vs (str|dict|OrderedDict|defaultdict) ', where):
                    key = 'v1-union-container-try-parse'
        ctx.fail(kind, case, f'load(dump(x)) differs from x at {where} (loaded vs original)'[:1500], key=key, detail=src)


def text_formats(ctx, case, x, Cls, built, src, key):
    """YAML / TOML / JSON-file mixins (the root class derives from the mixin)."""
    from dataclass_wizard import asdict
    import yaml
    import tomllib
    d = asdict(x)
    try:
        jd = json.loads(json.dumps(d))
    except Exception:
        return
    if hasattr(Cls, 'to_yaml'):
        try:
            txt = x.to_yaml()
            carriable = yaml.safe_load(txt) == jd and not _has_nan(jd)
        except Exception:
            carriable = False
        ctx.count('yaml_carriable' if carriable else 'yaml_not_carriable')
        if carriable:
            check_rt(ctx, 'roundtrip:yaml', case, load_outcome(lambda: Cls.from_yaml(txt)), x, src, key)
    if hasattr(Cls, 'to_toml'):
        try:
            txt = x.to_toml()
            carriable = tomllib.loads(txt) == jd and not _has_nan(jd) and not isinstance(jd.get('items'), list)
        except Exception:
            carriable = False
        ctx.count('toml_carriable' if carriable else 'toml_not_carriable')
        if carriable:
            check_rt(ctx, 'roundtrip:toml', case, load_outcome(lambda: Cls.from_toml(txt)), x, src, key)
    if hasattr(Cls, 'to_json_file'):
        fd, path = tempfile.mkstemp(suffix='.json', prefix='dwverif')
        os.close(fd)
        try:
            x.to_json_file(path)
            check_rt(ctx, 'roundtrip:json-file', case, load_outcome(lambda: Cls.from_json_file(path)), x, src, key)
        finally:
            os.unlink(path)


def _has_nan(v):
    if isinstance(v, float):
        return v != v
    if isinstance(v, dict):
        return any(_has_nan(x) for x in v.values())
    if isinstance(v, list):
        return any(_has_nan(x) for x in v)
    return False


