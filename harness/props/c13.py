"""C13 — tagged unions dispatch on the tag alone (default engine part)."""
from __future__ import annotations

import collections
import copy
import json

from harness import common as C
from harness import gen, metasteps, model, ref
from harness.model import T
from harness.props.c01 import compare_load, load_outcome
from harness.props import v1streams

TAG_KEYS = [None, None, 'type', 'kind', '__tag__', 'my tag', "it's", 'a"b', 'tag\\key', '{o}', 'new\nline', 'ключ']


def gen_family(rng, auto, n, fresh=None):
    """n member classes with overlapping / identical field sets"""
    fresh = fresh or model.fresh
    base_fields = [('val_one', T('int')), ('name_txt', T('str')), ('flag_on', T('bool')), ('num_val', T('float'))]
    members = []
    shared = rng.sample(base_fields, rng.randint(1, 3))
    for i in range(n):
        mode = rng.choice(['identical', 'overlap', 'own'])
        fs = list(shared)
        if mode != 'identical':
            extra = [f for f in base_fields if f not in fs]
            if extra and rng.random() < 0.7:
                fs.append(rng.choice(extra))
            if mode == 'own':
                fs.append((f'own{i}_fld', T(rng.choice(['int', 'str']))))
        fields, ftys = [], []
        for name, ft in fs:
            f = {'name': name}
            if rng.random() < 0.3:
                d = gen.simple_default_for(rng, ft)
                f['dflt'] = d
                f['factory'] = False
            fields.append(f)
        fields.sort(key=lambda f: 'dflt' in f)
        ftys = [[f['name'], dict(fs)[f['name']]] for f in fields]
        meta = {}
        explicit = (not auto) or rng.random() < 0.4
        if explicit:
            meta['tag'] = rng.choice([fresh('tag'), f'T{i}', f'tag {i}', f"q'{i}", f'ü{i}'])
        wizard = rng.random() < 0.5
        info = {'name': fresh('M'), 'fields': fields, 'wizard': wizard, 'meta': meta or None}
        members.append({'k': 'cls', 'info': info, 'ftys': ftys})
    return members


def cname(info):
    """the class's __name__ (what auto_assign_tags uses and what error objects report)"""
    return info.get('pyname') or info['name']


SHARED_NAMES = ['Event', 'Item', 'Node', 'Member']


def share_names(rng, members, auto):
    """DIMENSION look-alike *names*: two or more distinct member classes get one __name__ (classes of the same name from two modules /
    a factory; rendered through `pyname`, bound at module level under their unique names).  Only members with an explicit tag take part
    unless the shared name is the own name of exactly one auto-tagged member, so the tags stay distinct and the family well-formed."""
    explicit = [m for m in members if (m['info'].get('meta') or {}).get('tag')]
    others = [m for m in members if m not in explicit]
    group = rng.sample(explicit, rng.randint(2, len(explicit))) if len(explicit) >= 2 else list(explicit)
    mode = rng.choice(['fresh', 'fresh', 'own', 'other'])
    if mode == 'other' and others and group:
        name = rng.choice(others)['info']['name']         # an auto-tagged (or untagged-explicit) member keeps its name, tagged ones copy it
    elif mode == 'own' and len(group) >= 2:
        name = group[0]['info']['name']
        group = group[1:]
    elif len(group) >= 2:
        name = rng.choice(SHARED_NAMES)
    else:
        return []
    for m in group:
        m['info']['pyname'] = name
    return [m['info']['name'] for m in group]


PATH_TOPS = ['pos', 'loc', 'geo', 'info', 'meta', 'box']
PATH_SUBS = ['x', 'y', 'v', 'inner', 'r s', 'a-b', 'Key', '0']


def add_path_fields(rng, members, engine):
    """DIMENSION members that keep some fields under a nested JSON path (default engine: path_field / Annotated[..., KeyPath];
    v1: AliasPath as field specifier / inside Annotated).  The dumper assembles such a class in a separate nested mapping, the tag has to
    be written into that one.
    Kept out for now (a genuine defect of the unchanged library, unrelated to tags): v1 — two path fields below one top-level key are
    counted twice (findings/v1-aliaspath-shared-top-key-count.py), so v1 path fields use distinct top-level keys.  (Default engine: a
    CatchAll field used to capture the top-level key of a path; repaired by a3460f9, members with CatchAll get path fields again —
    findings/path-root-captured-by-catchall.py is the directed regression.)"""
    touched = []
    for m in members:
        fields = m['info']['fields']
        if rng.random() < 0.45:
            continue
        cands = [f for f in fields if not f.get('catch_all') and f.get('init', True) and not f.get('factory')]
        if not cands:
            continue
        tops = rng.sample(PATH_TOPS, len(PATH_TOPS))
        shared_top = rng.random() < 0.5
        for q_, f in enumerate(rng.sample(cands, rng.randint(1, min(2, len(cands))))):
            top = tops[0] if (engine == 'v0' and shared_top) else tops[q_]
            toks = [top] + [rng.choice(PATH_SUBS) + (str(q_) if engine == 'v0' and shared_top else '')
                            for _ in range(rng.randint(1, 2))]
            simple = all(t.isidentifier() for t in toks)
            keys = '.'.join(toks) if simple and rng.random() < 0.6 else toks
            if engine == 'v0':
                style = rng.choice(['path_field', 'keypath_ann'])
            else:
                style = rng.choice(['aliaspath', 'aliaspath_ann'])
            f['path'] = {'keys': keys, 'style': style}
        touched.append(m['info']['name'])
    return touched


def sibling_fields(rng, members, K, before_ok=lambda m: True):
    """DIMENSION the member classes are *also* referenced outside the Union: the container has further fields, declared before or after
    the Union field, whose type is a member class itself (bare, Optional, list, dict value).  -> [(field name, type, member, before?)]
    `before_ok(member)`: may a reference to this member be declared before the Union field (see run_v1)."""
    out = []
    for nme in rng.sample(['pre_ref', 'post_ref', 'near_ref'], rng.randint(1, 2)):
        M = K if rng.random() < 0.6 else rng.choice(members)
        shape = rng.choice(['bare', 'bare', 'optional', 'list', 'dictval'])
        ft = {'bare': M, 'optional': T('optional', M), 'list': T('list', M), 'dictval': T('dict', T('str'), M)}[shape]
        before = nme == 'pre_ref' or (nme == 'near_ref' and rng.random() < 0.5)
        out.append((nme, ft, M, before and before_ok(M)))
    return out


def draw_position_dims(rng, engine):
    """DIMENSIONS of *where and how* the Union is declared, beyond the container position:
    nest  - the Union is a field of a NESTED class (no Meta of its own) 0 / 1 / 2 levels below the main class;
    rec   - (default engine) Meta.recursive_classes on the main class: nested dataclasses are reached through lazily built loaders;
            with a self reference of the main class (what the setting is for) or without;
    fwd   - the dataclass members are written as forward references inside a real typing.Union (Union['Cat', 'Dog', int]), the member
            classes defined before (True) or after ('late') the class that refers to them."""
    nest = rng.choice([0, 0, 0, 1, 1, 2])
    rec = rng.choice([None, None, None, 'plain', 'selfref']) if engine == 'v0' else rng.choice([None, None, None, 'selfref'])
    fwd = rng.choice([None, None, None, True, 'late'])
    return nest, rec, fwd


def nest_union(fresh, rng, ft, nest):
    """-> (type of the main class's `member_fld`, holder classes innermost first): `nest` levels of plain holder classes, each with the one
    field `member_fld`"""
    holders = []
    for _ in range(nest):
        h = {'k': 'cls', 'info': {'name': fresh('H'), 'fields': [{'name': 'member_fld'}], 'wizard': rng.choice([False, False, True]), 'meta': None},
             'ftys': [['member_fld', ft]]}
        holders.append(h)
        ft = h
    return ft, holders


def add_self_reference(root):
    """the main class refers to itself: `again: Optional['R'] = None`, declared last"""
    root['info']['fields'].append({'name': 'again', 'dflt': ['lit', None], 'factory': False})
    root['ftys'].append(['again', T('optional', T('selfref', name=root['info']['name']))])


def doc_at(d, fld, nest):
    for _ in range(nest + 1):
        d = d[fld] if isinstance(d, dict) and fld in d else None
    return d


def obj_at(o, nest):
    for _ in range(nest + 1):
        o = o.member_fld
    return o


def root_with_siblings(name, ft, meta, sibs):
    before = [(n, t) for n, t, _m, b in sibs if b]
    after = [(n, t) for n, t, _m, b in sibs if not b]
    order = before + [('member_fld', ft)] + after
    return {'k': 'cls', 'info': {'name': name, 'fields': [{'name': n} for n, _ in order], 'wizard': True, 'meta': meta or None},
            'ftys': [[n, t] for n, t in order]}


def spread_bindings(rng, members, root, engine):
    """DIMENSION the Meta of a member class / of the container arrives in two or more bindings, in any order (harness/metasteps.py):
    LoadMeta / DumpMeta / hand-made Metas bound after the class statement, an inner Meta followed by such bindings, JSONPyWizard members
    (implicit DumpMeta, then the inner Meta); the explicit `tag` mostly in a LATER binding, sometimes with a stale tag in an earlier one that
    the later one overrides; auto-tagged members that already have a Meta of default-spelling settings; the container's tag_key /
    auto_assign_tags / unknown-key policy likewise split and overridden.  -> {class name: label of its binding history}"""
    neutral = metasteps.NEUTRAL_V0 if engine == 'v0' else metasteps.NEUTRAL_V1
    rmeta = root['info'].get('meta') or {}
    out = {}
    for m in members:
        if rng.random() < 0.75:
            tag = (m['info'].get('meta') or {}).get('tag')
            out[m['info']['name']] = metasteps.distribute(rng, m['info'], neutral, stale={'tag': tag + '~old'} if tag else None,
                                                          avoid=set(rmeta) - {'v1', 'key_transform_with_dump'})
    if rng.random() < 0.5 and rmeta:
        stale = {'tag_key': 'stale key', 'auto_assign_tags': False}
        out[root['info']['name']] = metasteps.distribute(rng, root['info'], neutral, stale=stale, py_ok=engine == 'v1',
                                                         late=('tag_key', 'auto_assign_tags', 'raise_on_unknown_json_key', 'v1_on_unknown_key'), p_late=0.6)
    return out


def _view(root_obj, skip=()):
    """what the load-first comparison looks at: every field of the container except the named sibling fields"""
    import dataclasses
    return [(f.name, repr(getattr(root_obj, f.name, None))) for f in dataclasses.fields(root_obj) if f.name not in skip]


def bind_map(built):
    return {built.get(n): n for n in built.infos}


def with_auto_tags(ty, auto_root):
    """documented meaning of auto_assign_tags for the model: every dataclass in a Union gets its class name as tag
    unless it declares one"""
    t = copy.deepcopy(ty)
    tagged = {}

    def walk(node, in_union, auto):
        k = node['k']
        if k == 'cls':
            own = node['info'].get('meta') or {}
            if in_union and (auto or own.get('auto_assign_tags')) and not own.get('tag'):
                own = dict(own)
                own['tag'] = cname(node['info'])
                node['info']['meta'] = own
                tagged[node['info']['name']] = own['tag']
            for _, ft in node['ftys']:
                walk(ft, False, auto)
        elif k == 'union':
            for m in node['a']:
                walk(m, True, auto)
        elif k in ('namedtuple',):
            for _n, ft, _d in node['fields']:
                walk(ft, False, auto)
        elif k == 'typeddict':
            for _n, ft, _r in node['fields']:
                walk(ft, False, auto)
        else:
            for m in node.get('a', []):
                walk(m, False, auto)
    walk(t, False, auto_root)

    def spread(node):
        # a class is one object: a member that got its tag through the Union carries it wherever else it is referenced
        if node['k'] == 'cls':
            nm = node['info']['name']
            if nm in tagged and not (node['info'].get('meta') or {}).get('tag'):
                node['info']['meta'] = dict(node['info'].get('meta') or {}, tag=tagged[nm])
            for _, ft in node['ftys']:
                spread(ft)
        elif node['k'] in ('namedtuple', 'typeddict'):
            for fld in node['fields']:
                spread(fld[1])
        else:
            for m in node.get('a', []):
                spread(m)
    if tagged:
        spread(t)
    return t


# --------------------------------------------------------------------------- DIMENSION the document is an instance of a dict SUBCLASS

class UserMap(dict):
    """a user-defined mapping type (e.g. an attribute-access dict of a web framework)"""


class UserOrdered(collections.OrderedDict):
    __slots__ = ()


MAP_KINDS = ['ordered', 'default', 'user', 'user-ordered', 'hook']
_MK = {'ordered': lambda d, f: collections.OrderedDict(d), 'default': lambda d, f: collections.defaultdict(f, d),
       'user': lambda d, f: UserMap(d), 'user-ordered': lambda d, f: UserOrdered(d)}


def draw_mapping(rng):
    """(kind, scope, factory): which dict subclass carries the document — OrderedDict (what `from_json(.., object_pairs_hook=OrderedDict)`
    produces: kind 'hook' goes through that public path), defaultdict, user subclasses of dict / OrderedDict built by hand — and whether every
    level is one or every level below the top."""
    return rng.choice(MAP_KINDS), rng.choice(['all', 'inner']), rng.choice([None, list, str, dict])


def as_mapping(doc, kind, scope, factory, top=True):
    if isinstance(doc, list):
        return [as_mapping(e, kind, scope, factory, False) for e in doc]
    if isinstance(doc, dict):
        items = {k_: as_mapping(v, kind, scope, factory, False) for k_, v in doc.items()}
        return items if (top and scope == 'inner') else _MK[kind](items, factory)
    return doc


def _err_sig(e):
    kw = getattr(e, 'kwargs', None) or {}
    vt = kw.get('valid_tags')
    return type(e).__name__, (sorted(vt) if vt is not None else None), kw.get('input_tag')


def mapping_docs(ctx, prefix, case, built, mapdim, docs, src):
    """A tagged document is a dict whatever its concrete class: the same document as an instance of a dict subclass at the Union position
    is dispatched exactly like the plain dict — same member class and value for an assigned tag, the same ParseError (valid_tags, input_tag) for
    an unassigned / missing one.  `docs`: [(label, plain document, outcome of the plain load)].
    (A defaultdict WITH a factory that lacks the tag key used to be kept out: `o[tag_key]` asked the factory — TypeError for list, and the
    key was written into the input.  Repaired by 6c8d086 / 6c6020b; tag-less documents now keep their factory, the input must come back
    unchanged, findings/defaultdict-missing-tag-mutates-input.py is the directed regression.)"""
    from dataclass_wizard import fromdict
    kind, scope, factory = mapdim
    for label, doc, plain in docs:
        if kind == 'hook':
            text = json.dumps(doc)
            got = load_outcome(lambda: built.root.from_json(text, object_pairs_hook=collections.OrderedDict))
            how = 'from_json(text, object_pairs_hook=OrderedDict)'
        else:
            fac = factory
            md = as_mapping(copy.deepcopy(doc), kind, scope, fac)
            before = repr(md)
            got = load_outcome(lambda: fromdict(built.root, md))
            if repr(md) != before:
                ctx.fail(f'{prefix}:mapping:input-mutated', dict(case, mapping=[kind, scope, getattr(factory, '__name__', None)], which=label),
                         f'the load wrote into the document it was given: {before[:300]} -> {repr(md)[:300]}', detail=src)
            how = f'fromdict of {kind} mappings ({scope} levels' + (f', factory {getattr(fac, "__name__", fac)}' if kind == 'default' else '') + ')'
        c = dict(case, mapping=[kind, scope, getattr(factory, '__name__', None)], which=label, doc=repr(doc)[:400])
        ctx.seen(f'{prefix}:mapping:{kind}', c)
        kindf = f'{prefix}:mapping'
        if plain[0] == 'ok':
            if got[0] == 'err':
                ctx.fail(kindf, c, f'{how}: {type(got[1]).__name__} {_err_sig(got[1])[1:]!r}: {str(got[1])[:200]!r}, while the same document as plain '
                         f'dicts loads as {plain[1]!r}'[:900], detail=src)
            elif label == 'bad-missing':
                pass        # no tag, taken by a scalar member: str() of a mapping shows its class, the values legitimately differ
            elif repr(got[1]) != repr(plain[1]):
                ctx.fail(kindf, c, f'{how} gave {got[1]!r}, the same document as plain dicts {plain[1]!r}'[:900], detail=src)
        elif got[0] == 'ok':
            ctx.fail(kindf, c, f'{how} accepted a document that is rejected as plain dicts ({type(plain[1]).__name__}): {got[1]!r}'[:900], detail=src)
        elif _err_sig(got[1]) != _err_sig(plain[1]):
            ctx.fail(kindf, c, f'{how} raised {_err_sig(got[1])!r}, the same document as plain dicts {_err_sig(plain[1])!r} '
                     f'(error type, valid_tags, input_tag)'[:900], detail=src)


def run(ctx: C.Ctx):
    v1streams.run_streams(ctx, run_default, run_v1)
    # the dump side of this property (catch-all items written back at top level / the tag entry) at the level of the generated
    # code: generator model text == generated source, Lean interpreter of that text == the real result (harness/props/c11_gencode.py)
    from . import c11_gencode
    c11_gencode.run(ctx)


def run_default(ctx: C.Ctx):
    from dataclass_wizard import fromdict, asdict
    from dataclass_wizard.errors import ParseError, UnknownKeysError
    rng = ctx.rng
    gen.SUBS = False
    ctx.rule = ('families of 2..4 member dataclasses with identical / overlapping / own field sets × tag assignment (explicit, '
                'auto_assign_tags, mixed) × tag_key strings incl. quotes, backslashes, braces, newlines, unicode × every rotation of the '
                'Union argument order, scalar members and None mixed in × container position (bare, Optional, list, dict value, tuple) × '
                'root policy (none, raise_on_unknown_json_key, CatchAll member) × members that share one __name__ (distinct classes, distinct tags) × '
                'members with nested-path fields (path_field / Annotated KeyPath) × member classes also referenced by plain / Optional / list / dict '
                'fields declared before or after the Union field: dump writes the tag, load(dump(k)) is K and equals k (the outside references too), '
                'unassigned / missing tags raise ParseError with valid_tags; also vs the Lean model. Non-trivial = distinct (family, member, position).')
    n = ctx.quick(350, 4000)
    reqs, pend = [], []
    for i in range(n):
        if ctx.done(i):
            break
        auto = rng.random() < 0.45
        members = gen_family(rng, auto, rng.randint(2, 4))
        scalars = rng.sample([T('int'), T('str'), T('bool'), T('none'), T('float')], rng.randint(0, 2))
        args = members + scalars
        rng.shuffle(args)
        rot = rng.randint(0, len(args) - 1)
        args = args[rot:] + args[:rot]
        union = T('union', *args)
        pos = rng.choice(['bare', 'optional', 'list', 'dictval', 'tuple'])
        if pos == 'optional' and not any(a['k'] == 'none' for a in args):
            union = T('union', *(args + [T('none')]))
        ft = {'bare': union, 'optional': union, 'list': T('list', union), 'dictval': T('dict', T('str'), union),
              'tuple': T('tuple', T('str'), union)}[pos]
        meta = {}
        tk = rng.choice(TAG_KEYS)
        if tk is not None:
            meta['tag_key'] = tk
        if auto:
            meta['auto_assign_tags'] = True
        policy = rng.choice(['none', 'none', 'raise', 'catchall'])
        if policy == 'raise':
            meta['raise_on_unknown_json_key'] = True
        if policy == 'catchall':
            for m in members:
                if rng.random() < 0.6:
                    m['info']['fields'].append({'name': 'rest_items', 'catch_all': True, 'dflt': ['dict'], 'factory': True})
                    m['ftys'].append(['rest_items', T('any')])
        K = rng.choice(members)
        # ---- further dimensions of "look-alike" and of "position": shared __name__, path fields, references outside the Union
        dims = rng.choice([(), (), ('names',), ('paths',), ('sibs',), ('sibs',), ('names', 'sibs'), ('paths', 'sibs'), ('names', 'paths', 'sibs')])
        shared = share_names(rng, members, auto) if 'names' in dims else []
        pathed = add_path_fields(rng, members, 'v0') if 'paths' in dims else []
        nest, rec, fwd = draw_position_dims(rng, 'v0')
        # kept out (a genuine defect of the unchanged library, findings/recursive-classes-auto-tag-member-dumped-before-nested-union.py): under
        # recursive_classes an auto-tagged member that is referenced by a main-class field declared BEFORE the field leading to the NESTED class that
        # holds the Union is dumped without its tag; such references are declared after it here
        lazy_nested = bool(rec and nest and auto)
        sibs = sibling_fields(rng, members, K, before_ok=lambda m: not lazy_nested or bool((m['info'].get('meta') or {}).get('tag'))) if 'sibs' in dims else []
        if fwd:
            union['fwd'] = True if sibs else fwd      # a class that is also referred to by name is defined first
        if rec:
            meta['recursive_classes'] = True
        top_ft, holders = nest_union(model.fresh, rng, ft, nest)
        root = root_with_siblings(model.fresh('R'), top_ft, meta, sibs)
        if rec == 'selfref':
            add_self_reference(root)
        stepped = spread_bindings(rng, members, root, 'v0') if rng.random() < 0.3 else {}
        try:
            built = model.Built(root)
        except Exception as e:
            ctx.count('build_error')
            ctx.notes.setdefault('build_errors', []).append(repr(e)[:300])
            continue
        try:
            built.bind_of = bind_map(built)
            k = gen.gen_instance(rng, K, built, use_defaults_prob=0.3)
            wrapped = {'bare': k, 'optional': k, 'list': [k, gen.gen_instance(rng, rng.choice(members), built)],
                       'dictval': {'a': k}, 'tuple': ('s', k)}[pos]
            sib_vals = {n: gen.gen_value(rng, t, built) for n, t, _m, _b in sibs}
            for h in holders:
                wrapped = built.get(h['info']['name'])(member_fld=wrapped)
            x = built.root(member_fld=wrapped, **sib_vals)
            if rec == 'selfref':
                x = built.root(member_fld=wrapped, again=x, **sib_vals)
            mapdim = draw_mapping(rng)
            # every draw of the case is made before begin_case, so that a replay (which skips the other cases) regenerates the same stream
            standalone_first = rng.random() < 0.3
            variant = rng.choice(['unassigned', 'missing'])
            bad_tag_pick = rng.randint(0, 4)
            if not ctx.begin_case(i):
                continue
            case = {'ty': root, 'member': K['info']['name'], 'pos': pos, 'inst': repr(x)[:400]}
            if nest or rec or fwd:
                case['declared'] = {'nested_levels': nest, 'recursive_classes': rec, 'forward_refs': union.get('fwd')}
                for dname, on in (('nested-union', nest), ('recursive-classes', rec), ('forward-ref-members', fwd)):
                    if on:
                        ctx.seen('tagged:dim:' + dname, case)
            if shared:
                case['shared_name'] = shared
            if pathed:
                case['path_members'] = pathed
            if sibs:
                case['siblings'] = [(n, m['info']['name'], b) for n, _t, m, b in sibs]
            if stepped:
                case['meta_bindings'] = stepped
            ctx.seen('tagged:' + pos, case)
            for dname, on in (('shared-name', shared), ('path-member', K['info']['name'] in pathed), ('sibling-ref', sibs),
                              ('meta-in-steps', stepped), ('member-tag-in-later-binding', 'late-tag' in stepped.get(K['info']['name'], ''))):
                if on:
                    ctx.seen('tagged:dim:' + dname, case)
            src = dict(src=built.source)
            eff_key = tk or '__tag__'
            own = K['info'].get('meta') or {}
            exp_tag = own.get('tag') or (cname(K['info']) if auto else None)
            # SIBLING_CAPTURE_SHAPE: genuine defect of the unchanged library (findings/auto-tag-plain-reference-before-union-captured.py):
            # on a load before any dump, a plain reference declared before the Union to an auto-tagged member with a CatchAll field
            # captures the tag key.  Those sibling fields are left out of the load-first comparison; the Union field never is.
            skip_sibs = {n for n, _t, m, b in sibs if b and auto and not (m['info'].get('meta') or {}).get('tag')
                         and any(f.get('catch_all') for f in m['info']['fields'])}
            case['standalone_first'] = standalone_first
            try:
                if standalone_first:
                    asdict(k)          # the member used on its own before it is seen through the container
                d = asdict(x)
            except Exception as e:
                ctx.fail('tagged:dump', case, f'asdict raised {e!r}', detail=src)
                continue
            dk = doc_at(d, 'memberFld', nest)
            dk = _AT[pos](dk) if dk is not None else None
            if rec == 'selfref' and dk is not None:
                # the same member one level down the self reference
                dk2 = doc_at(d.get('again'), 'memberFld', nest)
                dk2 = _AT[pos](dk2) if dk2 is not None else None
                if not isinstance(dk2, dict) or dk2.get(eff_key) != exp_tag:
                    dk = dk2
            if not isinstance(dk, dict) or dk.get(eff_key) != exp_tag or exp_tag is None:
                ctx.fail('tagged:dump-tag', case, f'dumped member {dk!r} does not carry tag {exp_tag!r} under key {eff_key!r}', detail=src)
                continue
            jd = json.loads(json.dumps(d))
            out = load_outcome(lambda: fromdict(built.root, copy.deepcopy(jd)))
            if out[0] == 'err':
                ctx.fail('tagged:roundtrip', case, f'load(dump(k)) raised {type(out[1]).__name__}: {str(out[1])[:300]}', detail=src)
            else:
                yk = _AT[pos](obj_at(out[1], nest))
                if type(yk) is not type(k) or not ref.same_typed(yk, k):
                    ctx.fail('tagged:roundtrip', case, f'load(dump(k)) gave {yk!r}, expected {k!r}', detail=src)
                elif rec == 'selfref' and not ref.same_typed(out[1], x):
                    ctx.fail('tagged:roundtrip', case, f'load(dump(x)) gave {out[1]!r}, expected {x!r} (self-referential main class)'[:900], detail=src)
                if policy == 'catchall' and hasattr(yk, 'rest_items') and eff_key in (yk.rest_items or {}):
                    ctx.fail('tagged:captured', case, f'the tag key was captured by CatchAll: {yk.rest_items!r}', detail=src)
                for sn, sv in sib_vals.items():
                    # a member class referenced outside the Union is the same class: it loads its own dump there as well
                    if not ref.same_typed(getattr(out[1], sn), sv):
                        ctx.fail('tagged:sibling', case, f'field {sn} (a member class referenced outside the Union): load(dump(v)) gave '
                                 f'{getattr(out[1], sn)!r}, expected {sv!r}', detail=src)
            # ---- the same document loaded by freshly defined classes that have never dumped (load first)
            built2 = model.Built(root)
            try:
                outf = load_outcome(lambda: fromdict(built2.root, copy.deepcopy(jd)))
                ctx.seen('tagged:load-first', case)
                if outf[0] == 'err':
                    key = 'auto-tag-load-first-unknown-key' if (auto and policy == 'raise' and isinstance(outf[1], UnknownKeysError)) else None
                    ctx.fail('tagged:load-first', case, f'load of a dumped document by classes that never dumped raised '
                             f'{type(outf[1]).__name__}: {str(outf[1])[:300]}', key=key, detail=src)
                elif out[0] == 'ok' and _view(outf[1], skip_sibs) != _view(out[1], skip_sibs):
                    key = 'auto-tag-load-first-captured' if (auto and policy == 'catchall') else None
                    ctx.fail('tagged:load-first', case, f'load-first gave {outf[1]!r}, after a dump {out[1]!r}', key=key, detail=src)
            finally:
                built2.close()
            st = model.StdTables()
            st.add_json(jd)
            mty = with_auto_tags(root, auto)
            in_model = not pathed and rec != 'selfref'   # the class model has no nested-path fields and is a tree: those cases are carried by the oracle alone
            if in_model:
                reqs.append({'op': 'load', 'ty': model.enc_ty(mty), 'doc': model.enc_j(jd), 'std': st.build()})
                pend.append((case, out, built))
            # ---- bad / missing tag
            bad = copy.deepcopy(jd)
            tgt = _AT[pos](doc_at(bad, 'memberFld', nest))
            if variant == 'unassigned':
                tgt[eff_key] = ['nope', 'Zzz', '', exp_tag + 'x', exp_tag.lower() + '_'][bad_tag_pick]
            else:
                tgt.pop(eff_key, None)
            out2 = load_outcome(lambda: fromdict(built.root, copy.deepcopy(bad)))
            case2 = dict(case, variant=variant, doc=repr(bad)[:400])
            ctx.seen('tagged:bad-' + variant, case2)
            assigned = [(m['info'].get('meta') or {}).get('tag') or (cname(m['info']) if auto else None) for m in members]
            if variant == 'unassigned' and tgt[eff_key] in assigned:
                pass
            elif out2[0] == 'ok':
                ctx.fail('tagged:bad-' + variant, case2, f'a dict with {variant} tag was accepted: {out2[1]!r}'[:600], detail=src)
            elif not isinstance(out2[1], ParseError):
                ctx.fail('tagged:bad-' + variant, case2, f'expected ParseError, got {type(out2[1]).__name__}: {str(out2[1])[:200]}', detail=src)
            elif variant == 'unassigned':
                vt = out2[1].kwargs.get('valid_tags')
                if vt is None or sorted(vt) != sorted(a for a in assigned if a):
                    ctx.fail('tagged:bad-unassigned', case2, f'ParseError valid_tags {vt!r}, assigned tags {sorted(a for a in assigned if a)!r}', detail=src)
            if in_model:
                st2 = model.StdTables()
                st2.add_json(bad)
                reqs.append({'op': 'load', 'ty': model.enc_ty(mty), 'doc': model.enc_j(bad), 'std': st2.build()})
                pend.append((case2, out2, built))
            mapping_docs(ctx, 'tagged', case, built, mapdim, [('tagged', jd, out), ('bad-' + variant, bad, out2)], src)
        finally:
            built.close()
    run_shared_family(ctx, 'v0', n, ctx.quick(60, 600))
    ctx.rule += (' SHARED FAMILY: one family of tagged members used by two containers with different tag_key / unknown-key policy / Union order / '
                 'position, histories of dumps, loads and unassigned-tag loads over both containers in every order: every operation follows its own '
                 'container\'s tag key. MAPPING TYPE: every dumped / bad document again as OrderedDict / defaultdict / user dict subclasses and through '
                 'from_json(object_pairs_hook=OrderedDict): same dispatch and same ParseError as the plain dict. META IN STEPS: member and container Metas '
                 'arriving in 2-3 bindings (inner Meta, JSONPyWizard, LoadMeta / DumpMeta / hand-made Meta after the class statement), tag mostly in a later '
                 'binding, stale values overridden by later bindings.')
    ctx.rule += (' WHERE / HOW THE UNION IS DECLARED: as a field of the main class or of a nested class (no Meta of its own) one or two levels below it; '
                 'recursive_classes = True on the main class, with and without a self reference of the main class (the member is then checked one level down '
                 'the self reference as well); dataclass members written as forward references inside a real typing.Union (Union[\'Cat\', \'Dog\', int]), '
                 'the member classes defined before or after the class that refers to them; the first operation on the freshly defined classes is the dump.')
    if ctx.model_available:
        outs = ctx.driver.run(reqs)
        for (case, out, built), o_ in zip(pend, outs):
            compare_load(ctx, 'tagged', case, out, o_, built)


# --------------------------------------------------------------------------- DIMENSION one family of members, several containers

SHARED_TAG_KEYS = [None, 'type', 'kind', '__tag__', '@class', 'my tag', "it's", 'a"b', '{o}', 'ключ', 'proto']


def run_shared_family(ctx: C.Ctx, engine, base, n):
    """ONE family of tagged member classes used by TWO container classes that configure different tag keys (and different unknown-key
    policies, Union argument orders and container positions), in one process: a history of dumps, loads of reference documents (dumped by
    freshly defined twin classes that only ever serve one container) and loads of unassigned tags, over both containers in every order — so
    that the members have been through the other container's dump / load set-up (an auto-assigning dump runs the load set-up too) before a
    container uses them.  The tag key is a setting of the container: each operation is judged by its own container's tag key alone."""
    import dataclasses
    from dataclass_wizard import fromdict, asdict
    from dataclass_wizard.errors import ParseError
    rng = v1streams.sub_rng(ctx, 'shared-family:' + engine)
    gen.SUBS = False
    fld = 'memberFld' if engine == 'v0' else 'member_fld'
    pre = 'tagged:shared' if engine == 'v0' else 'tagged:v1:shared'
    for j in range(n):
        i = base + j
        if ctx.done(i):
            break
        nm = v1streams.Namer(('x' if engine == 'v0' else 'y') + str(j))
        auto = rng.random() < 0.45
        members = gen_family(rng, auto, rng.randint(2, 4), fresh=nm)
        keys = rng.sample(SHARED_TAG_KEYS, 2)
        if {keys[0] or '__tag__'} == {keys[1] or '__tag__'}:
            keys[1] = 'other'
        conts = []
        for c in range(2):
            args = members + rng.sample([T('int'), T('str'), T('bool'), T('none'), T('float')], rng.randint(0, 1))
            rng.shuffle(args)
            pos = rng.choice(['bare', 'optional', 'list', 'dictval', 'tuple'])
            if pos == 'optional' and not any(a['k'] == 'none' for a in args):
                args = args + [T('none')]
            union = T('union', *args)
            ft = {'bare': union, 'optional': union, 'list': T('list', union), 'dictval': T('dict', T('str'), union),
                  'tuple': T('tuple', T('str'), union)}[pos]
            meta = {} if engine == 'v0' else {'v1': True, 'key_transform_with_dump': 'NONE'}
            if keys[c] is not None:
                meta['tag_key'] = keys[c]
            if auto:
                meta['auto_assign_tags'] = True
            policy = rng.choice(['none', 'raise'])
            if policy == 'raise':
                meta.update({'raise_on_unknown_json_key': True} if engine == 'v0' else {'v1_on_unknown_key': 'RAISE'})
            root = {'k': 'cls', 'info': {'name': nm('R'), 'fields': [{'name': 'member_fld'}], 'wizard': True, 'meta': meta or None},
                    'ftys': [['member_fld', ft]]}
            conts.append({'root': root, 'pos': pos, 'key': keys[c] or '__tag__', 'policy': policy})
        # history: the first operation sets the members up through one container; every container dumps, loads and rejects at least once
        ops = [(rng.randrange(2), rng.choice(['load', 'load', 'dump', 'bad']))]
        rest = [(c, o) for c in range(2) for o in ('dump', 'load', 'bad')] + [(rng.randrange(2), rng.choice(['dump', 'load'])) for _ in range(2)]
        rng.shuffle(rest)
        ops += rest
        both = T('tuple', conts[0]['root'], conts[1]['root'])
        try:
            built = model.Built(both)
            twins = [model.Built(both), model.Built(both)]      # twin c only ever dumps through container c
        except Exception as e:
            ctx.count('build_error')
            ctx.notes.setdefault('build_errors', []).append(repr(e)[:300])
            continue
        try:
            built.bind_of = bind_map(built)
            plan = []
            for c, o in ops:
                K = rng.choice(members)
                k = gen.gen_instance(rng, K, built, use_defaults_prob=0.3)
                plan.append((c, o, K, k, rng.randint(0, 4)))
            if not ctx.begin_case(i):
                continue
            assigned = [(m['info'].get('meta') or {}).get('tag') or (cname(m['info']) if auto else None) for m in members]
            case = {'ty': both, 'engine': engine, 'auto': auto, 'containers': [[ct['root']['info']['name'], ct['key'], ct['pos'], ct['policy']] for ct in conts],
                    'history': [[conts[c]['root']['info']['name'], o, K['info']['name']] for c, o, K, _k, _b in plan]}
            ctx.seen(pre, case)
            src = dict(src=built.source)
            for step, (c, o, K, k, badpick) in enumerate(plan):
                ct, other = conts[c], conts[1 - c]
                pos, eff = ct['pos'], ct['key']
                rname = ct['root']['info']['name']
                exp_tag = (K['info'].get('meta') or {}).get('tag') or (cname(K['info']) if auto else None)
                wrap = lambda z: {'bare': z, 'optional': z, 'list': [z], 'dictval': {'a': z}, 'tuple': ('s', z)}[pos]
                cs = dict(case, step=step, op=[rname, o, K['info']['name']], inst=repr(k)[:300])
                ctx.seen(f'{pre}:{o}' + (':first' if step == 0 else ''), cs)
                if o == 'dump':
                    try:
                        d = asdict(built.get(rname)(member_fld=wrap(k)))
                    except Exception as e:
                        ctx.fail(pre + ':dump', cs, f'step {step}: asdict through container {rname} raised {e!r}'[:600], detail=src)
                        continue
                    dk = _AT[pos](d[fld]) if fld in d else None
                    if not isinstance(dk, dict) or dk.get(eff) != exp_tag or other['key'] in dk:
                        ctx.fail(pre + ':dump-tag', cs, f'step {step}: container {rname} (tag_key {eff!r}) dumped member {dk!r}: expected tag {exp_tag!r} under '
                                 f'{eff!r} (and nothing under the other container\'s key {other["key"]!r})'[:900], detail=src)
                    continue
                # reference document: the same value dumped through the twin of this container (fresh classes, no other container involved)
                tw = twins[c]
                tk_ = tw.get(K['info']['name'])(**{f.name: getattr(k, f.name) for f in dataclasses.fields(k) if f.init})
                try:
                    doc = json.loads(json.dumps(asdict(tw.get(rname)(member_fld=wrap(tk_)))))
                    tgt = _AT[pos](doc[fld])
                    if not isinstance(tgt, dict) or tgt.get(eff) != exp_tag:
                        raise ValueError(f'member dumped as {tgt!r}, expected tag {exp_tag!r} under {eff!r}')
                except Exception as e:
                    ctx.fail(pre + ':dump-tag', cs, f'step {step}: reference dump by fresh classes through {rname} only: {e!r}'[:600], detail=src)
                    continue
                if o == 'bad':
                    tgt[eff] = ['nope', 'Zzz', '', exp_tag + 'x', exp_tag.lower() + '_'][badpick]
                    if tgt[eff] in assigned:
                        continue
                cs['doc'] = repr(doc)[:400]
                out = load_outcome(lambda: fromdict(built.get(rname), copy.deepcopy(doc)))
                if o == 'load':
                    if out[0] == 'err':
                        e = out[1]
                        ctx.fail(pre + ':load', cs, f'step {step}: container {rname} (tag_key {eff!r}) rejects a document carrying the tag {exp_tag!r} under its '
                                 f'own tag key: {type(e).__name__}: {str(e)[:300]}', detail=src)
                    else:
                        yk = _AT[pos](out[1].member_fld)
                        if type(yk) is not type(k) or not ref.same_typed(yk, k):
                            ctx.fail(pre + ':load', cs, f'step {step}: container {rname} loaded {yk!r} ({built.bind_of.get(type(yk), type(yk))}), expected {k!r} '
                                     f'({K["info"]["name"]})'[:900], detail=src)
                elif out[0] == 'ok':
                    ctx.fail(pre + ':bad-unassigned', cs, f'step {step}: container {rname} accepted the unassigned tag {tgt[eff]!r}: {out[1]!r}'[:600], detail=src)
                elif not isinstance(out[1], ParseError):
                    ctx.fail(pre + ':bad-unassigned', cs, f'step {step}: unassigned tag {tgt[eff]!r}: expected ParseError, got {type(out[1]).__name__}: '
                             f'{str(out[1])[:200]}', detail=src)
                else:
                    vt = out[1].kwargs.get('valid_tags')
                    if vt is None or sorted(vt) != sorted(a for a in assigned if a):
                        ctx.fail(pre + ':bad-unassigned', cs, f'step {step}: ParseError valid_tags {vt!r}, assigned tags {sorted(a for a in assigned if a)!r}', detail=src)
        finally:
            built.close()
            for tw in twins:
                tw.close()


# --------------------------------------------------------------------------- v1 engine

V1_TAG_KEYS = [None, None, 'type', 'kind', '__tag__', 'type', 'kind', 'my tag', "it's", 'a"b', 'tag\\key', '{o}', 'ключ']
_AT = {'bare': lambda z: z, 'optional': lambda z: z, 'list': lambda z: z[0], 'dictval': lambda z: z['a'], 'tuple': lambda z: z[1]}


def run_v1(ctx: C.Ctx):
    from dataclass_wizard import fromdict, asdict
    from dataclass_wizard.errors import ParseError, UnknownKeysError
    rng = v1streams.sub_rng(ctx)
    gen.SUBS = False
    ctx.rule = ('v1 engine (root Meta v1=True, dump keys as field names): the same families of 2..4 look-alike member dataclasses × tag assignment '
                '(explicit, auto_assign_tags, mixed) × tag_key strings × rotations of the Union arguments with scalar members and None mixed in × '
                'container position × root policy (none, v1_on_unknown_key=RAISE cascading to the members, CatchAll member with default None / without '
                'default) × members that mirror their tag in an init=False attribute named like the tag key × members that share one __name__ × members '
                'with AliasPath fields × member classes also referenced outside the Union: dump writes the tag, load(dump(k)) is K and '
                'equals k, the tag key is neither reported unknown nor captured while a genuinely unknown key still is, unassigned tags raise ParseError '
                'with valid_tags, a missing tag raises ParseError unless a str / bool member coerces the dict; also vs the Lean model of the v1 engine. '
                'Non-trivial = distinct (family, member, position).')
    n = ctx.quick(300, 3500)
    reqs, pend = [], []
    for j in range(n):
        i = v1streams.OFFSET + j
        if ctx.done(i):
            break
        nm = v1streams.Namer(j)
        auto = rng.random() < 0.45
        members = gen_family(rng, auto, rng.randint(2, 4), fresh=nm)
        scalars = rng.sample([T('int'), T('str'), T('bool'), T('none'), T('float')], rng.randint(0, 2))
        args = members + scalars
        rng.shuffle(args)
        rot = rng.randint(0, len(args) - 1)
        args = args[rot:] + args[:rot]
        union = T('union', *args)
        pos = rng.choice(['bare', 'optional', 'list', 'dictval', 'tuple'])
        if pos == 'optional' and not any(a['k'] == 'none' for a in args):
            union = T('union', *(args + [T('none')]))
        ft = {'bare': union, 'optional': union, 'list': T('list', union), 'dictval': T('dict', T('str'), union),
              'tuple': T('tuple', T('str'), union)}[pos]
        meta = {'v1': True, 'key_transform_with_dump': 'NONE'}
        tk = rng.choice(V1_TAG_KEYS)
        if tk is not None:
            meta['tag_key'] = tk
        if auto:
            meta['auto_assign_tags'] = True
        policy = rng.choice(['none', 'raise', 'raise', 'catchall', 'catchall'])
        if policy == 'raise':
            meta['v1_on_unknown_key'] = 'RAISE'
        eff_key = tk or '__tag__'
        mirror = []
        for m in members:
            own = m['info'].get('meta') or {}
            tag = own.get('tag') or (m['info']['name'] if auto else None)
            if policy == 'catchall' and rng.random() < 0.7:
                cf = {'name': 'rest_items', 'catch_all': True}
                if rng.random() < 0.7:
                    cf.update(dflt=['lit', None], factory=False)
                    m['info']['fields'].append(cf)
                else:
                    idx = next((q for q, f in enumerate(m['info']['fields']) if f.get('dflt') is not None), len(m['info']['fields']))
                    m['info']['fields'].insert(idx, cf)
                m['ftys'].append(['rest_items', T('any')])
            # a read-only discriminator attribute named like the tag key (never a constructor argument)
            if eff_key.isidentifier() and tag is not None and rng.random() < 0.45 and not any(f['name'] == eff_key for f in m['info']['fields']):
                m['info']['fields'].append({'name': eff_key, 'dflt': ['lit', tag], 'factory': False, 'init': False})
                m['ftys'].append([eff_key, T('str')])
                mirror.append(m['info']['name'])
        K = rng.choice(members)
        # ---- further dimensions of "look-alike" and of "position": shared __name__, path fields, references outside the Union
        dims = rng.choice([(), (), ('names',), ('names',), ('paths',), ('sibs',), ('names', 'sibs'), ('paths', 'sibs'), ('names', 'paths', 'sibs')])
        shared = share_names(rng, members, auto) if 'names' in dims else []
        pathed = add_path_fields(rng, members, 'v1') if 'paths' in dims else []
        # kept out for now (genuine violation on the unchanged tree, findings/v1-auto-tag-plain-reference-before-union.py): the per-class
        # v1 load function of an auto-tagged member that is referenced BEFORE the Union field is generated without its tag; such
        # references are declared after the Union field here (explicitly tagged members are referenced on either side)
        sibs = sibling_fields(rng, members, K, before_ok=lambda m: bool((m['info'].get('meta') or {}).get('tag'))) if 'sibs' in dims else []
        nest, rec, fwd = draw_position_dims(rng, 'v1')
        if fwd:
            union['fwd'] = True if sibs else fwd      # a class that is also referred to by name is defined first
        top_ft, holders = nest_union(nm, rng, ft, nest)
        root = root_with_siblings(nm('R'), top_ft, meta, sibs)
        if rec == 'selfref':
            add_self_reference(root)
        stepped = spread_bindings(rng, members, root, 'v1') if rng.random() < 0.3 else {}
        try:
            built = model.Built(root)
        except Exception as e:
            ctx.count('build_error')
            ctx.notes.setdefault('build_errors', []).append(repr(e)[:300])
            continue
        try:
            built.bind_of = bind_map(built)
            k = gen.gen_instance(rng, K, built, use_defaults_prob=0.3)
            k2 = gen.gen_instance(rng, rng.choice(members), built)
            sib_vals = {n: gen.gen_value(rng, t, built) for n, t, _m, _b in sibs}

            def norm(z):
                if isinstance(z, list):
                    for e in z:
                        norm(e)
                elif isinstance(z, dict):
                    for e in z.values():
                        norm(e)
                elif type(z) in built.bind_of:
                    cf = next((f for f in built.infos[built.bind_of[type(z)]]['info']['fields'] if f.get('catch_all')), None)
                    if cf is not None and cf.get('dflt') is not None and z.rest_items == {}:
                        z.rest_items = None      # what a load gives when nothing is captured
            norm([k, k2, sib_vals])
            wrapped = {'bare': k, 'optional': k, 'list': [k, k2], 'dictval': {'a': k}, 'tuple': ('s', k)}[pos]
            for h in holders:
                wrapped = built.get(h['info']['name'])(member_fld=wrapped)
            x = built.root(member_fld=wrapped, **sib_vals)
            if rec == 'selfref':
                x = built.root(member_fld=wrapped, again=x, **sib_vals)
            variant = rng.choice(['unassigned', 'missing', 'extra-key'])
            bad_tag_pick = rng.randint(0, 4)
            mapdim = draw_mapping(rng)
            if not ctx.begin_case(i):
                continue
            case = {'ty': root, 'member': K['info']['name'], 'pos': pos, 'inst': repr(x)[:400], 'engine': 'v1', 'policy': policy, 'mirror': mirror}
            if nest or rec or fwd:
                case['declared'] = {'nested_levels': nest, 'self_reference': rec, 'forward_refs': union.get('fwd')}
                for dname, on in (('nested-union', nest), ('self-reference', rec), ('forward-ref-members', fwd)):
                    if on:
                        ctx.seen('tagged:v1:dim:' + dname, case)
            if shared:
                case['shared_name'] = shared
            if pathed:
                case['path_members'] = pathed
            if sibs:
                case['siblings'] = [(n, m['info']['name'], b) for n, _t, m, b in sibs]
            if stepped:
                case['meta_bindings'] = stepped
            ctx.seen('tagged:v1:' + pos, case)
            for dname, on in (('shared-name', shared), ('path-member', K['info']['name'] in pathed), ('sibling-ref', sibs),
                              ('meta-in-steps', stepped), ('member-tag-in-later-binding', 'late-tag' in stepped.get(K['info']['name'], ''))):
                if on:
                    ctx.seen('tagged:v1:dim:' + dname, case)
            src = dict(src=built.source)
            own = K['info'].get('meta') or {}
            exp_tag = own.get('tag') or (cname(K['info']) if auto else None)
            try:
                d = asdict(x)
            except Exception as e:
                ctx.fail('tagged:v1:dump', case, f'asdict raised {e!r}', detail=src)
                continue
            dk = doc_at(d, 'member_fld', nest)
            dk = _AT[pos](dk) if dk is not None else None
            if rec == 'selfref' and dk is not None:
                dk2 = doc_at(d.get('again'), 'member_fld', nest)
                dk2 = _AT[pos](dk2) if dk2 is not None else None
                if not isinstance(dk2, dict) or dk2.get(eff_key) != exp_tag:
                    dk = dk2
            if not isinstance(dk, dict) or dk.get(eff_key) != exp_tag or exp_tag is None:
                ctx.fail('tagged:v1:dump-tag', case, f'dumped member {dk!r} does not carry tag {exp_tag!r} under key {eff_key!r}', detail=src)
                continue
            jd = json.loads(json.dumps(d))
            out = load_outcome(lambda: fromdict(built.root, copy.deepcopy(jd)))
            has_ca = hasattr(k, 'rest_items')
            if out[0] == 'err':
                e = out[1]
                extra = f' naming {v1streams.unknown_keys_of(e)!r} for class {e.class_name!r}' if isinstance(e, UnknownKeysError) else ''
                ctx.fail('tagged:v1:roundtrip', case, f'load(dump(k)) raised {type(e).__name__}{extra}: {str(e)[:300]}', detail=src)
            else:
                yk = _AT[pos](obj_at(out[1], nest))
                if has_ca and isinstance(yk.rest_items, dict) and eff_key in yk.rest_items and eff_key not in (k.rest_items or {}):
                    ctx.fail('tagged:v1:captured', case, f'the tag key was captured by CatchAll: {yk.rest_items!r}', detail=src)
                elif type(yk) is not type(k) or not ref.same_typed(yk, k):
                    which = '' if type(yk) is type(k) else f' (class {built.bind_of.get(type(yk), type(yk))} instead of {built.bind_of.get(type(k))})'
                    ctx.fail('tagged:v1:roundtrip', case, f'load(dump(k)) gave {yk!r}{which}, expected {k!r}', detail=src)
                for sn, sv in sib_vals.items():
                    # a member class referenced outside the Union is the same class: it loads its own dump there as well
                    if not ref.same_typed(getattr(out[1], sn), sv):
                        ctx.fail('tagged:v1:sibling', case, f'field {sn} (a member class referenced outside the Union): load(dump(v)) gave '
                                 f'{getattr(out[1], sn)!r}, expected {sv!r}', detail=src)
            # ---- the same document loaded by freshly defined classes that have never dumped (load first)
            built2 = model.Built(root)
            try:
                outf = load_outcome(lambda: fromdict(built2.root, copy.deepcopy(jd)))
                ctx.seen('tagged:v1:load-first', case)
                if outf[0] == 'err':
                    ctx.fail('tagged:v1:load-first', case, f'load of a dumped document by classes that never dumped raised '
                             f'{type(outf[1]).__name__}: {str(outf[1])[:300]}', detail=src)
                elif out[0] == 'ok' and repr(outf[1]) != repr(out[1]):
                    ctx.fail('tagged:v1:load-first', case, f'load-first gave {outf[1]!r}, after a dump {out[1]!r}', detail=src)
            finally:
                built2.close()
            st = model.StdTables()
            st.add_json(jd)
            mty = with_auto_tags(root, auto)
            in_model = not pathed and rec != 'selfref'   # the class model has no nested-path fields and is a tree: those cases are carried by the oracle alone
            if in_model:
                reqs.append({'op': 'loadv1', 'ty': model.enc_ty(mty), 'doc': model.enc_j(jd), 'std': st.build()})
                pend.append((case, out, built))
            # ---- bad / missing tag, genuinely unknown key next to the tag
            bad = copy.deepcopy(jd)
            tgt = _AT[pos](doc_at(bad, 'member_fld', nest))
            assigned = [(m['info'].get('meta') or {}).get('tag') or (cname(m['info']) if auto else None) for m in members]
            if variant == 'unassigned':
                tgt[eff_key] = ['nope', 'Zzz', '', exp_tag + 'x', exp_tag.lower() + '_'][bad_tag_pick]
            elif variant == 'missing':
                tgt.pop(eff_key, None)
            else:
                tgt['zzz_unknown'] = 7
            out2 = load_outcome(lambda: fromdict(built.root, copy.deepcopy(bad)))
            case2 = dict(case, variant=variant, doc=repr(bad)[:400])
            ctx.seen('tagged:v1:bad-' + variant, case2)
            coercing = any(a['k'] in ('str', 'bool') for a in args)
            if variant == 'extra-key':
                if policy == 'raise':
                    if not (out2[0] == 'err' and isinstance(out2[1], UnknownKeysError) and v1streams.unknown_keys_of(out2[1]) == ['zzz_unknown']
                            and out2[1].class_name in (cname(K['info']), type(k).__qualname__)):
                        got = (type(out2[1]).__name__, getattr(out2[1], 'unknown_keys', None), getattr(out2[1], 'class_name', None)) if out2[0] == 'err' else out2[1]
                        ctx.fail('tagged:v1:bad-extra-key', case2, f'RAISE: expected UnknownKeysError naming exactly zzz_unknown for {cname(K["info"])}, got {got!r}'[:600], detail=src)
                elif out2[0] == 'err':
                    ctx.fail('tagged:v1:bad-extra-key', case2, f'an unknown key next to the tag made the load fail: {type(out2[1]).__name__}: {str(out2[1])[:200]}', detail=src)
                elif has_ca:
                    yk2 = _AT[pos](obj_at(out2[1], nest))
                    want = dict(k.rest_items or {})
                    want['zzz_unknown'] = 7
                    if yk2.rest_items != want:
                        ctx.fail('tagged:v1:bad-extra-key', case2, f'CatchAll holds {yk2.rest_items!r}, expected exactly {want!r} (never the tag key)', detail=src)
            elif variant == 'unassigned' and tgt[eff_key] in assigned:
                pass
            elif variant == 'missing' and coercing:
                ctx.count('v1:missing-tag-coercible')
            elif out2[0] == 'ok':
                ctx.fail('tagged:v1:bad-' + variant, case2, f'a dict with {variant} tag was accepted: {out2[1]!r}'[:600], detail=src)
            elif not isinstance(out2[1], ParseError):
                ctx.fail('tagged:v1:bad-' + variant, case2, f'expected ParseError, got {type(out2[1]).__name__}: {str(out2[1])[:200]}', detail=src)
            elif variant == 'unassigned':
                vt = out2[1].kwargs.get('valid_tags')
                if vt is None or sorted(vt) != sorted(a for a in assigned if a):
                    ctx.fail('tagged:v1:bad-unassigned', case2, f'ParseError valid_tags {vt!r}, assigned tags {sorted(a for a in assigned if a)!r}', detail=src)
            if in_model:
                st2 = model.StdTables()
                st2.add_json(bad)
                reqs.append({'op': 'loadv1', 'ty': model.enc_ty(mty), 'doc': model.enc_j(bad), 'std': st2.build()})
                pend.append((case2, out2, built))
            mapping_docs(ctx, 'tagged:v1', case, built, mapdim, [('tagged', jd, out), ('bad-' + variant, bad, out2)], src)
        finally:
            built.close()
    # ---- a tagged class without any constructor field, loaded directly from a document that holds just its tag
    for jj, tk in enumerate([None, 'kind']):
        i = v1streams.OFFSET + n + jj
        if ctx.done(i):
            break
        nm = v1streams.Namer(n + jj)
        meta = {'v1': True, 'tag': 'only', 'v1_on_unknown_key': 'RAISE'}
        if tk:
            meta['tag_key'] = tk
        ty = {'k': 'cls', 'info': {'name': nm('B'), 'fields': [{'name': 'computed_n', 'dflt': ['lit', 3], 'factory': False, 'init': False}],
                                   'wizard': True, 'meta': meta}, 'ftys': [['computed_n', T('int')]]}
        built = model.Built(ty)
        try:
            if not ctx.begin_case(i):
                continue
            doc = {tk or '__tag__': 'only'}
            case = {'ty': ty, 'doc': repr(doc), 'engine': 'v1', 'probe': 'tag-only-class'}
            ctx.seen('tagged:v1:tag-only-class', case)
            out = load_outcome(lambda: fromdict(built.root, dict(doc)))
            if out[0] == 'err':
                e = out[1]
                key = 'v1-tag-only-class' if isinstance(e, UnknownKeysError) and not v1streams.unknown_keys_of(e) else None
                ctx.fail('tagged:v1:tag-only-class', case, f'a tagged class without constructor fields rejects a document holding just its tag: '
                         f'{type(e).__name__} naming {getattr(e, "unknown_keys", None)!r}', key=key, detail=dict(src=built.source))
            st = model.StdTables()
            st.add_json(doc)
            reqs.append({'op': 'loadv1', 'ty': model.enc_ty(ty), 'doc': model.enc_j(doc), 'std': st.build()})
            pend.append((case, out, built))
        finally:
            built.close()
    run_shared_family(ctx, 'v1', v1streams.OFFSET + n + 2, ctx.quick(60, 600))
    ctx.rule += (' The SHARED FAMILY, MAPPING TYPE and META IN STEPS dimensions of the default stream apply to this stream as well, and so does WHERE / HOW '
                 'THE UNION IS DECLARED (nested class one or two levels down, self-referential main class, forward-reference members defined before / after).')
    if ctx.model_available:
        outs = ctx.driver.run(reqs)
        for (case, out, built), o_ in zip(pend, outs):
            compare_load(ctx, 'tagged:v1', case, out, o_, built)
