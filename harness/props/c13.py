"""C13 — tagged unions dispatch on the tag alone (default engine part)."""
from __future__ import annotations

import copy
import json

from harness import common as C
from harness import gen, model, ref
from harness.model import T
from harness.props.c01 import compare_load, load_outcome
from harness.props import v1streams

TAG_KEYS = [None, None, 'type', 'kind', '__tag__', 'my tag', "it's", 'a"b', 'tag\\key', '{o}', 'new\nline', 'ключ']


def gen_family(rng, auto, n, fresh=None):
    """n member classes with overlapping / identical field sets"""
    fresh = fresh or model.fresh
    base_fields = [('val_one', T('int')), ('name_txt', T('str')), ('flag_on', T('bool')), ('num_val', T('float'))]
    members = []
    shared = rng.sample(base_fields, rng.randint(1, 3))
    for i in range(n):
        mode = rng.choice(['identical', 'overlap', 'own'])
        fs = list(shared)
        if mode != 'identical':
            extra = [f for f in base_fields if f not in fs]
            if extra and rng.random() < 0.7:
                fs.append(rng.choice(extra))
            if mode == 'own':
                fs.append((f'own{i}_fld', T(rng.choice(['int', 'str']))))
        fields, ftys = [], []
        for name, ft in fs:
            f = {'name': name}
            if rng.random() < 0.3:
                d = gen.simple_default_for(rng, ft)
                f['dflt'] = d
                f['factory'] = False
            fields.append(f)
        fields.sort(key=lambda f: 'dflt' in f)
        ftys = [[f['name'], dict(fs)[f['name']]] for f in fields]
        meta = {}
        explicit = (not auto) or rng.random() < 0.4
        if explicit:
            meta['tag'] = rng.choice([fresh('tag'), f'T{i}', f'tag {i}', f"q'{i}", f'ü{i}'])
        wizard = rng.random() < 0.5
        info = {'name': fresh('M'), 'fields': fields, 'wizard': wizard, 'meta': meta or None}
        members.append({'k': 'cls', 'info': info, 'ftys': ftys})
    return members


def with_auto_tags(ty, auto_root):
    """documented meaning of auto_assign_tags for the model: every dataclass in a Union gets its class name as tag
    unless it declares one"""
    t = copy.deepcopy(ty)

    def walk(node, in_union, auto):
        k = node['k']
        if k == 'cls':
            own = node['info'].get('meta') or {}
            if in_union and (auto or own.get('auto_assign_tags')) and not own.get('tag'):
                own = dict(own)
                own['tag'] = node['info']['name']
                node['info']['meta'] = own
            for _, ft in node['ftys']:
                walk(ft, False, auto)
        elif k == 'union':
            for m in node['a']:
                walk(m, True, auto)
        elif k in ('namedtuple',):
            for _n, ft, _d in node['fields']:
                walk(ft, False, auto)
        elif k == 'typeddict':
            for _n, ft, _r in node['fields']:
                walk(ft, False, auto)
        else:
            for m in node.get('a', []):
                walk(m, False, auto)
    walk(t, False, auto_root)
    return t


def run(ctx: C.Ctx):
    v1streams.run_streams(ctx, run_default, run_v1)


def run_default(ctx: C.Ctx):
    from dataclass_wizard import fromdict, asdict
    from dataclass_wizard.errors import ParseError, UnknownKeysError
    rng = ctx.rng
    gen.SUBS = False
    ctx.rule = ('families of 2..4 member dataclasses with identical / overlapping / own field sets × tag assignment (explicit, '
                'auto_assign_tags, mixed) × tag_key strings incl. quotes, backslashes, braces, newlines, unicode × every rotation of the '
                'Union argument order, scalar members and None mixed in × container position (bare, Optional, list, dict value, tuple) × '
                'root policy (none, raise_on_unknown_json_key, CatchAll member): dump writes the tag, load(dump(k)) is K and equals k, '
                'unassigned / missing tags raise ParseError with valid_tags; also vs the Lean model. Non-trivial = distinct (family, member, position).')
    n = ctx.quick(350, 4000)
    reqs, pend = [], []
    for i in range(n):
        if ctx.done(i):
            break
        auto = rng.random() < 0.45
        members = gen_family(rng, auto, rng.randint(2, 4))
        scalars = rng.sample([T('int'), T('str'), T('bool'), T('none'), T('float')], rng.randint(0, 2))
        args = members + scalars
        rng.shuffle(args)
        rot = rng.randint(0, len(args) - 1)
        args = args[rot:] + args[:rot]
        union = T('union', *args)
        pos = rng.choice(['bare', 'optional', 'list', 'dictval', 'tuple'])
        if pos == 'optional' and not any(a['k'] == 'none' for a in args):
            union = T('union', *(args + [T('none')]))
        ft = {'bare': union, 'optional': union, 'list': T('list', union), 'dictval': T('dict', T('str'), union),
              'tuple': T('tuple', T('str'), union)}[pos]
        meta = {}
        tk = rng.choice(TAG_KEYS)
        if tk is not None:
            meta['tag_key'] = tk
        if auto:
            meta['auto_assign_tags'] = True
        policy = rng.choice(['none', 'none', 'raise', 'catchall'])
        if policy == 'raise':
            meta['raise_on_unknown_json_key'] = True
        if policy == 'catchall':
            for m in members:
                if rng.random() < 0.6:
                    m['info']['fields'].append({'name': 'rest_items', 'catch_all': True, 'dflt': ['dict'], 'factory': True})
                    m['ftys'].append(['rest_items', T('any')])
        root = {'k': 'cls', 'info': {'name': model.fresh('R'), 'fields': [{'name': 'member_fld'}], 'wizard': True, 'meta': meta or None},
                'ftys': [['member_fld', ft]]}
        try:
            built = model.Built(root)
        except Exception as e:
            ctx.count('build_error')
            ctx.notes.setdefault('build_errors', []).append(repr(e)[:300])
            continue
        try:
            K = rng.choice(members)
            k = gen.gen_instance(rng, K, built, use_defaults_prob=0.3)
            wrapped = {'bare': k, 'optional': k, 'list': [k, gen.gen_instance(rng, rng.choice(members), built)],
                       'dictval': {'a': k}, 'tuple': ('s', k)}[pos]
            x = built.root(member_fld=wrapped)
            if not ctx.begin_case(i):
                continue
            case = {'ty': root, 'member': K['info']['name'], 'pos': pos, 'inst': repr(x)[:400]}
            ctx.seen('tagged:' + pos, case)
            src = dict(src=built.source)
            eff_key = tk or '__tag__'
            own = K['info'].get('meta') or {}
            exp_tag = own.get('tag') or (K['info']['name'] if auto else None)
            standalone_first = rng.random() < 0.3
            case['standalone_first'] = standalone_first
            try:
                if standalone_first:
                    asdict(k)          # the member used on its own before it is seen through the container
                d = asdict(x)
            except Exception as e:
                ctx.fail('tagged:dump', case, f'asdict raised {e!r}', detail=src)
                continue
            dk = {'bare': lambda z: z, 'optional': lambda z: z, 'list': lambda z: z[0], 'dictval': lambda z: z['a'], 'tuple': lambda z: z[1]}[pos](d['memberFld'])
            if not isinstance(dk, dict) or dk.get(eff_key) != exp_tag or exp_tag is None:
                ctx.fail('tagged:dump-tag', case, f'dumped member {dk!r} does not carry tag {exp_tag!r} under key {eff_key!r}', detail=src)
                continue
            jd = json.loads(json.dumps(d))
            out = load_outcome(lambda: fromdict(built.root, copy.deepcopy(jd)))
            if out[0] == 'err':
                ctx.fail('tagged:roundtrip', case, f'load(dump(k)) raised {type(out[1]).__name__}: {str(out[1])[:300]}', detail=src)
            else:
                y = out[1].member_fld
                yk = {'bare': lambda z: z, 'optional': lambda z: z, 'list': lambda z: z[0], 'dictval': lambda z: z['a'], 'tuple': lambda z: z[1]}[pos](y)
                if type(yk) is not type(k) or not ref.same_typed(yk, k):
                    ctx.fail('tagged:roundtrip', case, f'load(dump(k)) gave {yk!r}, expected {k!r}', detail=src)
                if policy == 'catchall' and hasattr(yk, 'rest_items') and eff_key in (yk.rest_items or {}):
                    ctx.fail('tagged:captured', case, f'the tag key was captured by CatchAll: {yk.rest_items!r}', detail=src)
            # ---- the same document loaded by freshly defined classes that have never dumped (load first)
            built2 = model.Built(root)
            try:
                outf = load_outcome(lambda: fromdict(built2.root, copy.deepcopy(jd)))
                ctx.seen('tagged:load-first', case)
                if outf[0] == 'err':
                    key = 'auto-tag-load-first-unknown-key' if (auto and policy == 'raise' and isinstance(outf[1], UnknownKeysError)) else None
                    ctx.fail('tagged:load-first', case, f'load of a dumped document by classes that never dumped raised '
                             f'{type(outf[1]).__name__}: {str(outf[1])[:300]}', key=key, detail=src)
                elif out[0] == 'ok' and repr(outf[1]) != repr(out[1]):
                    key = 'auto-tag-load-first-captured' if (auto and policy == 'catchall') else None
                    ctx.fail('tagged:load-first', case, f'load-first gave {outf[1]!r}, after a dump {out[1]!r}', key=key, detail=src)
            finally:
                built2.close()
            st = model.StdTables()
            st.add_json(jd)
            mty = with_auto_tags(root, auto)
            reqs.append({'op': 'load', 'ty': model.enc_ty(mty), 'doc': model.enc_j(jd), 'std': st.build()})
            pend.append((case, out, built))
            # ---- bad / missing tag
            bad = copy.deepcopy(jd)
            tgt = {'bare': lambda z: z, 'optional': lambda z: z, 'list': lambda z: z[0], 'dictval': lambda z: z['a'], 'tuple': lambda z: z[1]}[pos](bad['memberFld'])
            variant = rng.choice(['unassigned', 'missing'])
            if variant == 'unassigned':
                tgt[eff_key] = rng.choice(['nope', 'Zzz', '', exp_tag + 'x', exp_tag.lower() + '_'])
            else:
                tgt.pop(eff_key, None)
            out2 = load_outcome(lambda: fromdict(built.root, copy.deepcopy(bad)))
            case2 = dict(case, variant=variant, doc=repr(bad)[:400])
            ctx.seen('tagged:bad-' + variant, case2)
            assigned = [(m['info'].get('meta') or {}).get('tag') or (m['info']['name'] if auto else None) for m in members]
            if variant == 'unassigned' and tgt[eff_key] in assigned:
                pass
            elif out2[0] == 'ok':
                ctx.fail('tagged:bad-' + variant, case2, f'a dict with {variant} tag was accepted: {out2[1]!r}'[:600], detail=src)
            elif not isinstance(out2[1], ParseError):
                ctx.fail('tagged:bad-' + variant, case2, f'expected ParseError, got {type(out2[1]).__name__}: {str(out2[1])[:200]}', detail=src)
            elif variant == 'unassigned':
                vt = out2[1].kwargs.get('valid_tags')
                if vt is None or sorted(vt) != sorted(a for a in assigned if a):
                    ctx.fail('tagged:bad-unassigned', case2, f'ParseError valid_tags {vt!r}, assigned tags {sorted(a for a in assigned if a)!r}', detail=src)
            st2 = model.StdTables()
            st2.add_json(bad)
            reqs.append({'op': 'load', 'ty': model.enc_ty(mty), 'doc': model.enc_j(bad), 'std': st2.build()})
            pend.append((case2, out2, built))
        finally:
            built.close()
    if ctx.model_available:
        outs = ctx.driver.run(reqs)
        for (case, out, built), o_ in zip(pend, outs):
            compare_load(ctx, 'tagged', case, out, o_, built)


# --------------------------------------------------------------------------- v1 engine

V1_TAG_KEYS = [None, None, 'type', 'kind', '__tag__', 'type', 'kind', 'my tag', "it's", 'a"b', 'tag\\key', '{o}', 'ключ']
_AT = {'bare': lambda z: z, 'optional': lambda z: z, 'list': lambda z: z[0], 'dictval': lambda z: z['a'], 'tuple': lambda z: z[1]}


def run_v1(ctx: C.Ctx):
    from dataclass_wizard import fromdict, asdict
    from dataclass_wizard.errors import ParseError, UnknownKeysError
    rng = v1streams.sub_rng(ctx)
    gen.SUBS = False
    ctx.rule = ('v1 engine (root Meta v1=True, dump keys as field names): the same families of 2..4 look-alike member dataclasses × tag assignment '
                '(explicit, auto_assign_tags, mixed) × tag_key strings × rotations of the Union arguments with scalar members and None mixed in × '
                'container position × root policy (none, v1_on_unknown_key=RAISE cascading to the members, CatchAll member with default None / without '
                'default) × members that mirror their tag in an init=False attribute named like the tag key: dump writes the tag, load(dump(k)) is K and '
                'equals k, the tag key is neither reported unknown nor captured while a genuinely unknown key still is, unassigned tags raise ParseError '
                'with valid_tags, a missing tag raises ParseError unless a str / bool member coerces the dict; also vs the Lean model of the v1 engine. '
                'Non-trivial = distinct (family, member, position).')
    n = ctx.quick(300, 3500)
    reqs, pend = [], []
    for j in range(n):
        i = v1streams.OFFSET + j
        if ctx.done(i):
            break
        nm = v1streams.Namer(j)
        auto = rng.random() < 0.45
        members = gen_family(rng, auto, rng.randint(2, 4), fresh=nm)
        scalars = rng.sample([T('int'), T('str'), T('bool'), T('none'), T('float')], rng.randint(0, 2))
        args = members + scalars
        rng.shuffle(args)
        rot = rng.randint(0, len(args) - 1)
        args = args[rot:] + args[:rot]
        union = T('union', *args)
        pos = rng.choice(['bare', 'optional', 'list', 'dictval', 'tuple'])
        if pos == 'optional' and not any(a['k'] == 'none' for a in args):
            union = T('union', *(args + [T('none')]))
        ft = {'bare': union, 'optional': union, 'list': T('list', union), 'dictval': T('dict', T('str'), union),
              'tuple': T('tuple', T('str'), union)}[pos]
        meta = {'v1': True, 'key_transform_with_dump': 'NONE'}
        tk = rng.choice(V1_TAG_KEYS)
        if tk is not None:
            meta['tag_key'] = tk
        if auto:
            meta['auto_assign_tags'] = True
        policy = rng.choice(['none', 'raise', 'raise', 'catchall', 'catchall'])
        if policy == 'raise':
            meta['v1_on_unknown_key'] = 'RAISE'
        eff_key = tk or '__tag__'
        mirror = []
        for m in members:
            own = m['info'].get('meta') or {}
            tag = own.get('tag') or (m['info']['name'] if auto else None)
            if policy == 'catchall' and rng.random() < 0.7:
                cf = {'name': 'rest_items', 'catch_all': True}
                if rng.random() < 0.7:
                    cf.update(dflt=['lit', None], factory=False)
                    m['info']['fields'].append(cf)
                else:
                    idx = next((q for q, f in enumerate(m['info']['fields']) if f.get('dflt') is not None), len(m['info']['fields']))
                    m['info']['fields'].insert(idx, cf)
                m['ftys'].append(['rest_items', T('any')])
            # a read-only discriminator attribute named like the tag key (never a constructor argument)
            if eff_key.isidentifier() and tag is not None and rng.random() < 0.45 and not any(f['name'] == eff_key for f in m['info']['fields']):
                m['info']['fields'].append({'name': eff_key, 'dflt': ['lit', tag], 'factory': False, 'init': False})
                m['ftys'].append([eff_key, T('str')])
                mirror.append(m['info']['name'])
        root = {'k': 'cls', 'info': {'name': nm('R'), 'fields': [{'name': 'member_fld'}], 'wizard': True, 'meta': meta},
                'ftys': [['member_fld', ft]]}
        try:
            built = model.Built(root)
        except Exception as e:
            ctx.count('build_error')
            ctx.notes.setdefault('build_errors', []).append(repr(e)[:300])
            continue
        try:
            K = rng.choice(members)
            k = gen.gen_instance(rng, K, built, use_defaults_prob=0.3)
            k2 = gen.gen_instance(rng, rng.choice(members), built)
            for z in (k, k2):
                cf = next((f for f in built.infos[type(z).__name__]['info']['fields'] if f.get('catch_all')), None)
                if cf is not None and cf.get('dflt') is not None and z.rest_items == {}:
                    z.rest_items = None      # what a load gives when nothing is captured
            wrapped = {'bare': k, 'optional': k, 'list': [k, k2], 'dictval': {'a': k}, 'tuple': ('s', k)}[pos]
            x = built.root(member_fld=wrapped)
            variant = rng.choice(['unassigned', 'missing', 'extra-key'])
            bad_tag_pick = rng.randint(0, 4)
            if not ctx.begin_case(i):
                continue
            case = {'ty': root, 'member': K['info']['name'], 'pos': pos, 'inst': repr(x)[:400], 'engine': 'v1', 'policy': policy, 'mirror': mirror}
            ctx.seen('tagged:v1:' + pos, case)
            src = dict(src=built.source)
            own = K['info'].get('meta') or {}
            exp_tag = own.get('tag') or (K['info']['name'] if auto else None)
            try:
                d = asdict(x)
            except Exception as e:
                ctx.fail('tagged:v1:dump', case, f'asdict raised {e!r}', detail=src)
                continue
            dk = _AT[pos](d['member_fld']) if 'member_fld' in d else None
            if not isinstance(dk, dict) or dk.get(eff_key) != exp_tag or exp_tag is None:
                ctx.fail('tagged:v1:dump-tag', case, f'dumped member {dk!r} does not carry tag {exp_tag!r} under key {eff_key!r}', detail=src)
                continue
            jd = json.loads(json.dumps(d))
            out = load_outcome(lambda: fromdict(built.root, copy.deepcopy(jd)))
            has_ca = hasattr(k, 'rest_items')
            if out[0] == 'err':
                e = out[1]
                extra = f' naming {v1streams.unknown_keys_of(e)!r} for class {e.class_name!r}' if isinstance(e, UnknownKeysError) else ''
                ctx.fail('tagged:v1:roundtrip', case, f'load(dump(k)) raised {type(e).__name__}{extra}: {str(e)[:300]}', detail=src)
            else:
                yk = _AT[pos](out[1].member_fld)
                if has_ca and isinstance(yk.rest_items, dict) and eff_key in yk.rest_items and eff_key not in (k.rest_items or {}):
                    ctx.fail('tagged:v1:captured', case, f'the tag key was captured by CatchAll: {yk.rest_items!r}', detail=src)
                elif type(yk) is not type(k) or not ref.same_typed(yk, k):
                    ctx.fail('tagged:v1:roundtrip', case, f'load(dump(k)) gave {yk!r}, expected {k!r}', detail=src)
            # ---- the same document loaded by freshly defined classes that have never dumped (load first)
            built2 = model.Built(root)
            try:
                outf = load_outcome(lambda: fromdict(built2.root, copy.deepcopy(jd)))
                ctx.seen('tagged:v1:load-first', case)
                if outf[0] == 'err':
                    ctx.fail('tagged:v1:load-first', case, f'load of a dumped document by classes that never dumped raised '
                             f'{type(outf[1]).__name__}: {str(outf[1])[:300]}', detail=src)
                elif out[0] == 'ok' and repr(outf[1]) != repr(out[1]):
                    ctx.fail('tagged:v1:load-first', case, f'load-first gave {outf[1]!r}, after a dump {out[1]!r}', detail=src)
            finally:
                built2.close()
            st = model.StdTables()
            st.add_json(jd)
            mty = with_auto_tags(root, auto)
            reqs.append({'op': 'loadv1', 'ty': model.enc_ty(mty), 'doc': model.enc_j(jd), 'std': st.build()})
            pend.append((case, out, built))
            # ---- bad / missing tag, genuinely unknown key next to the tag
            bad = copy.deepcopy(jd)
            tgt = _AT[pos](bad['member_fld'])
            assigned = [(m['info'].get('meta') or {}).get('tag') or (m['info']['name'] if auto else None) for m in members]
            if variant == 'unassigned':
                tgt[eff_key] = ['nope', 'Zzz', '', exp_tag + 'x', exp_tag.lower() + '_'][bad_tag_pick]
            elif variant == 'missing':
                tgt.pop(eff_key, None)
            else:
                tgt['zzz_unknown'] = 7
            out2 = load_outcome(lambda: fromdict(built.root, copy.deepcopy(bad)))
            case2 = dict(case, variant=variant, doc=repr(bad)[:400])
            ctx.seen('tagged:v1:bad-' + variant, case2)
            coercing = any(a['k'] in ('str', 'bool') for a in args)
            if variant == 'extra-key':
                if policy == 'raise':
                    if not (out2[0] == 'err' and isinstance(out2[1], UnknownKeysError) and v1streams.unknown_keys_of(out2[1]) == ['zzz_unknown']
                            and out2[1].class_name == K['info']['name']):
                        got = (type(out2[1]).__name__, getattr(out2[1], 'unknown_keys', None), getattr(out2[1], 'class_name', None)) if out2[0] == 'err' else out2[1]
                        ctx.fail('tagged:v1:bad-extra-key', case2, f'RAISE: expected UnknownKeysError naming exactly zzz_unknown for {K["info"]["name"]}, got {got!r}'[:600], detail=src)
                elif out2[0] == 'err':
                    ctx.fail('tagged:v1:bad-extra-key', case2, f'an unknown key next to the tag made the load fail: {type(out2[1]).__name__}: {str(out2[1])[:200]}', detail=src)
                elif has_ca:
                    yk2 = _AT[pos](out2[1].member_fld)
                    want = dict(k.rest_items or {})
                    want['zzz_unknown'] = 7
                    if yk2.rest_items != want:
                        ctx.fail('tagged:v1:bad-extra-key', case2, f'CatchAll holds {yk2.rest_items!r}, expected exactly {want!r} (never the tag key)', detail=src)
            elif variant == 'unassigned' and tgt[eff_key] in assigned:
                pass
            elif variant == 'missing' and coercing:
                ctx.count('v1:missing-tag-coercible')
            elif out2[0] == 'ok':
                ctx.fail('tagged:v1:bad-' + variant, case2, f'a dict with {variant} tag was accepted: {out2[1]!r}'[:600], detail=src)
            elif not isinstance(out2[1], ParseError):
                ctx.fail('tagged:v1:bad-' + variant, case2, f'expected ParseError, got {type(out2[1]).__name__}: {str(out2[1])[:200]}', detail=src)
            elif variant == 'unassigned':
                vt = out2[1].kwargs.get('valid_tags')
                if vt is None or sorted(vt) != sorted(a for a in assigned if a):
                    ctx.fail('tagged:v1:bad-unassigned', case2, f'ParseError valid_tags {vt!r}, assigned tags {sorted(a for a in assigned if a)!r}', detail=src)
            st2 = model.StdTables()
            st2.add_json(bad)
            reqs.append({'op': 'loadv1', 'ty': model.enc_ty(mty), 'doc': model.enc_j(bad), 'std': st2.build()})
            pend.append((case2, out2, built))
        finally:
            built.close()
    # ---- a tagged class without any constructor field, loaded directly from a document that holds just its tag
    for jj, tk in enumerate([None, 'kind']):
        i = v1streams.OFFSET + n + jj
        if ctx.done(i):
            break
        nm = v1streams.Namer(n + jj)
        meta = {'v1': True, 'tag': 'only', 'v1_on_unknown_key': 'RAISE'}
        if tk:
            meta['tag_key'] = tk
        ty = {'k': 'cls', 'info': {'name': nm('B'), 'fields': [{'name': 'computed_n', 'dflt': ['lit', 3], 'factory': False, 'init': False}],
                                   'wizard': True, 'meta': meta}, 'ftys': [['computed_n', T('int')]]}
        built = model.Built(ty)
        try:
            if not ctx.begin_case(i):
                continue
            doc = {tk or '__tag__': 'only'}
            case = {'ty': ty, 'doc': repr(doc), 'engine': 'v1', 'probe': 'tag-only-class'}
            ctx.seen('tagged:v1:tag-only-class', case)
            out = load_outcome(lambda: fromdict(built.root, dict(doc)))
            if out[0] == 'err':
                e = out[1]
                key = 'v1-tag-only-class' if isinstance(e, UnknownKeysError) and not v1streams.unknown_keys_of(e) else None
                ctx.fail('tagged:v1:tag-only-class', case, f'a tagged class without constructor fields rejects a document holding just its tag: '
                         f'{type(e).__name__} naming {getattr(e, "unknown_keys", None)!r}', key=key, detail=dict(src=built.source))
            st = model.StdTables()
            st.add_json(doc)
            reqs.append({'op': 'loadv1', 'ty': model.enc_ty(ty), 'doc': model.enc_j(doc), 'std': st.build()})
            pend.append((case, out, built))
        finally:
            built.close()
    if ctx.model_available:
        outs = ctx.driver.run(reqs)
        for (case, out, built), o_ in zip(pend, outs):
            compare_load(ctx, 'tagged:v1', case, out, o_, built)
