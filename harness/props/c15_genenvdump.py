"""C15: the second copy of the dump-function generator (`dataclass_wizard/environ/dumpers.py`, for EnvWizard classes) tied to the model
of the first (`DW/Model/GenDump.lean`).

The EnvWizard generator writes the text of the default engine's generator with one substitution S and two omissions: every call
`asdict(<x>,dict_factory,hooks,config,cls_to_asdict)` carries a sixth argument `cls_dump_fn` (one more closure key, placed after
`cls_to_asdict`), the first parameter is annotated (`o:T`, `T` being a global of the function), no tag entry is written, and there
is no load-before-dump path registration.  This stream builds seeded EnvWizard
classes over what that generator looks at (field order, defaults, aliases / `dump=False`, JSON paths, CatchAll with / without default,
per-field SkipIf, Meta.skip_if / skip_defaults_if / skip_defaults, `_pre_dict`, dump key transform, field names equal to the template's
own variables), captures the generated `cls_asdict` and compares parameter list, body and ordered closure keys byte for byte with
S(model text).  With that tie theorem `C15_gendump_well_scoped` covers this generator too: S adds one read of `cls_dump_fn` per
call, which is a closure key (compared) and is bound nowhere in the body (the model's writes are compared through the text).  The
function is then run through its bookkeeping branches: a NameError / UnboundLocalError / SyntaxError is a violation.
"""
from __future__ import annotations

import dataclasses
import random

from .. import common as C, gencap
from . import c15_gendump as GD

BASE = 500000
ENV_TEMPLATE_NAMES = {'self', '_env_file', '_reload', '_env_prefix', '_secrets_dir', '_vars', '_name', '_env_var', '_var_name', 'e', 'cls',
                      'Env', 'MISSING', 'add', 'get_env', 'lookup_exact', 'handle_err', 'ParseError', 'MissingVars', 'dict', 'items',
                      'update', 'append'}


def subst(code):
    return code.replace(',config,cls_to_asdict)', ',config,cls_to_asdict,cls_dump_fn)')


def subst_locals(names):
    out = []
    for n in names:
        out.append(n)
        if n == 'cls_to_asdict':
            out.append('cls_dump_fn')
    return out


def make_case(rng):
    case = GD.make_case(rng)
    gin = case['gin']
    gin.pop('tag', None)
    gin.pop('tagKey', None)
    gin['extraPaths'] = False
    case['meta'].pop('tag', None)
    case['meta'].pop('tag_key', None)
    case['load_first'] = False
    if 'key_transform' not in case['meta']:
        case['meta']['key_transform'] = 'CAMEL'        # the keys of the case were computed with the default engine's default transform
    return case


def build_class(case, idx, seed):
    """an EnvWizard class with the fields of the case; the dump settings go into an inner Meta (found through its qualified name)"""
    from dataclass_wizard import EnvWizard
    ns = {'EnvWizard': EnvWizard}
    meta = dict(case['meta'])
    cname = f'Ged{seed}_{idx}'
    lines = [f'class {cname}(EnvWizard):']
    meta_lines = []
    for k, v in meta.items():
        attr = 'key_transform_with_dump' if k == 'key_transform' else k
        ns[f'M_{k}'] = v
        meta_lines.append(f'        {attr} = M_{k}')
    if meta_lines:
        lines.append('    class _(EnvWizard.Meta):')
        lines += meta_lines
    if case['pre_dict']:
        ns['PRE'] = lambda self: None
        lines.append('    _pre_dict = PRE')
    for i, (name, tp, fld) in enumerate(case['specs']):
        ns[f'T{i}'] = tp
        plain = (fld.__class__ is dataclasses.Field and fld.default is dataclasses.MISSING and fld.default_factory is dataclasses.MISSING
                 and not fld.metadata)
        if plain:
            lines.append(f'    {name}: T{i}')
        else:
            ns[f'F{i}'] = fld
            lines.append(f'    {name}: T{i} = F{i}')
    if len(lines) == 1:
        lines.append('    pass')
    exec(compile('\n'.join(lines) + '\n', '<genenvdump>', 'exec', dont_inherit=True), ns)     # not under this module's __future__ flags
    return ns[cname]


def instances(cls, case, rng):
    from dataclass_wizard import CatchAll
    out = []
    for _ in range(3):
        kw = {}
        for name, tp, fld in case['specs']:
            if tp is CatchAll:
                kw[name] = rng.choice([{}, {'u1': 1, 'u2': 'x'}, None]) if (fld.default is None) else rng.choice([{}, {'u1': 1}])
            elif fld.default is dataclasses.MISSING and fld.default_factory is dataclasses.MISSING or rng.random() < 0.5:
                kw[name] = rng.choice([0, 1, 5, -3])
        try:
            out.append(cls(**kw))
        except (NameError, SyntaxError):
            raise
        except Exception:       # noqa
            pass
    return out


def run_genenvdump(ctx: C.Ctx):
    if ctx.only is not None and not (BASE <= ctx.only < BASE + 100000):
        return
    ctx.trusted += ['the EnvWizard copy of the dump-function generator (environ/dumpers.py) is tied to DW/Model/GenDump.lean modulo the stated '
                    'substitution (a sixth call argument `cls_dump_fn` / one more closure key, no tag entry): byte-for-byte comparison of '
                    'parameter list, body, ordered closure keys']
    rng = random.Random(f'C15ged:{ctx.seed}')
    n_cases = ctx.quick(250, 3000)
    cap = gencap.Capture()
    cases, reqs = [], []
    with cap.on():
        for i in range(n_cases):
            case = make_case(rng)
            idx = BASE + i
            irng = rng.random()
            if ctx.only is not None and idx != ctx.only:
                continue
            case['index'] = idx
            if any(n in ENV_TEMPLATE_NAMES for n in case['names']):
                ctx.count('genenvdump:field-named-like-the-constructor-template')      # recorded finding env-init-field-name-shares-namespace
                continue
            errs = []
            n0 = len(cap.batches)
            cls = None
            try:
                cls = build_class(case, i, ctx.seed)
            except (NameError, SyntaxError) as e:
                errs.append(f'class definition: {type(e).__name__}: {e}')
            except Exception as e:     # noqa
                ctx.count('genenvdump:class-not-built')
                del cap.batches[n0:]
                continue
            del cap.batches[n0:]
            r2 = random.Random(irng)
            try:
                insts = instances(cls, case, r2) if cls is not None else []
            except (NameError, SyntaxError) as e:
                errs.append(f'constructor: {type(e).__name__}: {e}')
                insts = []
            del cap.batches[n0:]
            if cls is not None:
                try:
                    if insts:
                        insts[0].to_dict()
                    else:
                        from dataclass_wizard.environ.dumpers import dump_func_for_dataclass
                        dump_func_for_dataclass(cls)
                except (NameError, SyntaxError) as e:
                    errs.append(f'{type(e).__name__}: {e}')
                except Exception:     # noqa
                    pass
            fns = [b for b in cap.batches[n0:] if 'cls_asdict' in b['functions']]
            del cap.batches[n0:]
            names = [n for n, _t, _f in case['specs']]
            for inst in insts:
                for kw in ({}, {'exclude': names[:1]}, {'skip_defaults': True}, {'exclude': names[1:3], 'skip_defaults': True}):
                    try:
                        inst.to_dict(**kw)
                    except (NameError, SyntaxError) as e:
                        errs.append(f'{type(e).__name__}: {e}')
                    except Exception:     # noqa
                        pass
            case['captured'] = fns[0] if fns else None
            case['run_errors'] = sorted(set(errs))[:3]
            cases.append(case)
            reqs.append({'op': 'gendump', 'nonprintable': GD.nonprintable_of(case), 'gin': case['gin']})
    outs = ctx.driver.run(reqs) if ctx.model_available else [None] * len(reqs)
    for case, out in zip(cases, outs):
        ctx.current = case['index']
        d = GD.describe(case)
        gin = case['gin']
        feats = '+'.join(k for k, on in (('skipif', 'skipIf' in gin), ('sdif', 'skipDefaultsIf' in gin), ('sd', gin.get('skipDefaults')),
                                         ('catchall', any(f.get('isCatchAll') for f in gin['fields'])),
                                         ('paths', any(isinstance(f.get('key'), list) for f in gin['fields'])),
                                         ('pre', gin.get('preDict'))) if on) or 'plain'
        ctx.seen('genenvdump:' + feats, d)
        bad = case['run_errors']
        capd = case['captured']
        if bad:
            ctx.fail('genenvdump:run', d, 'the generated EnvWizard cls_asdict does not compile or refers to a name it does not bind: ' +
                     '; '.join(bad)[:300], detail={'code': capd['functions']['cls_asdict']['code'] if capd else None})
        if capd is None:
            ctx.count('genenvdump:not-captured')
            continue
        f = capd['functions']['cls_asdict']
        probs = gencap.scope_report('cls_asdict', f, capd['globals'], set(capd['functions']))[0]
        if probs and not bad:
            ctx.fail('genenvdump:scope', d, 'generated EnvWizard cls_asdict: ' + '; '.join(probs)[:300], detail={'code': f['code']})
        if out is None:
            continue
        if 'err' in out:
            ctx.agree('genenvdump', d, {'code': f['code']}, {'driver-error': out['err']})
            continue
        r = out['r']
        impl = {'args': list(f['args']), 'code': f['code'], 'locals': [n for n in (f.get('locals_ordered') or []) if not n.endswith('_return_type__')]}
        mdl = {'args': ['o:T'] + r['args'][1:] if r['args'][:1] == ['o'] and 'T' in capd['globals'] else r['args'], 'code': subst(r['code']),
               'locals': subst_locals([n for n in r['locals'] if not n.endswith('_return_type__')])}
        if not ctx.agree('genenvdump:text', d, impl, mdl):
            continue
        ok = not bad and not probs
        ctx.agree('genenvdump:verdict', d, {'wellScoped': ok}, {'wellScoped': r['wellScoped']})
    ctx.notes['genenvdump_cases'] = len(cases)
