"""C08 part C — the alias / path / casing clauses for a dataclass that is reached *through other classes*, over a history.

The end-to-end part (c08_e2e.py) exercises one class at a time.  The same alias class models are used here as the type of
a field of one to three enclosing main classes (directly, in a list, under Optional, as dict values), which hand their
configuration (engine, key case, dump transform) down to it; the nested class either has no Meta of its own (a plain
@dataclass) or states the same configuration itself (then it is also used stand-alone).  A case is a *history*: a
seeded sequence of loads and dumps over the enclosing classes (and the nested class itself), through the class methods
or the module-level functions, starting with either direction.  Every step is judged by the same documentation
reference as in part B (`ref_load` / `ref_dump` on the nested class under the enclosing configuration): which class
reached the nested one first, in which direction, and what earlier documents contained must not matter.

All enclosing classes of one case state the same configuration, so the recorded finding `shared-nested-config-leak`
(a nested class keeps the configuration of the root it was first reached through) cannot interfere.
"""
from __future__ import annotations

import copy

from harness import model
from harness.model import T
from harness.props import c08_e2e as E

SHAPES = ['direct', 'direct', 'list', 'list', 'optional', 'dict']
HOLDER = {'direct': ('inner', '{I}'), 'list': ('items', 'list[{I}]'), 'optional': ('maybe', 'Optional[{I}]'),
          'dict': ('table', 'dict[str, {I}]')}


def gen_scenario(rng, engine):
    cm = E.gen_class(rng, engine)          # the nested class; cm['meta'] / cm['base'] = what the enclosing classes state
    own_meta = rng.random() < 0.3
    if not own_meta:
        cm['meta'].pop('key_to_field', None)
        cm['meta'].pop('field_to_alias', None)
    outers = []
    for _ in range(rng.choice([1, 2, 2, 2, 3])):
        outers.append({'shape': rng.choice(SHAPES), 'extra': rng.random() < 0.4})
    # spelling of the enclosing classes' reference to the nested class (E.gen_spelling covers the nested class itself
    # and the module): quoted by hand where the nested class quotes its own annotations; drawn from the scenario text,
    # not from the case stream (see E.gen_spelling)
    sp = cm.get('spelling') or {}
    if sp.get('quoted'):
        import random
        r = random.Random('holder|' + E.json.dumps([cm, outers], sort_keys=True))
        for o in outers:
            o['quoted'] = r.random() < 0.6
    targets = list(range(len(outers))) + ([-1] if own_meta else [])
    docs = E.gen_docs(cm, rng, 6)
    steps = []
    first = rng.choice(['load', 'dump'])
    counter = 5000
    for si in range(rng.randint(3, 7)):
        op = first if si == 0 else rng.choice(['load', 'load', 'dump'])
        tgt = rng.choice(targets)
        api = rng.choice(['method', 'function'])
        shape = outers[tgt]['shape'] if tgt >= 0 else 'direct'
        k = rng.choice([1, 2, 3]) if shape in ('list', 'dict') else 1
        if op == 'load':
            picks = [rng.randrange(len(docs)) for _ in range(k)]
            steps.append({'op': 'load', 'target': tgt, 'api': api, 'docs': picks,
                          'none': shape == 'optional' and rng.random() < 0.15})
        else:
            vs = []
            for _ in range(k):
                vs.append({f['name']: (counter := counter + 1) for f in cm['fields']})
            steps.append({'op': 'dump', 'target': tgt, 'api': api, 'vals': vs})
    return {'cm': cm, 'own_meta': own_meta, 'outers': outers, 'docs': [d for _k, d in docs], 'steps': steps}


def render(sc, iname, onames):
    cm = sc['cm']
    src = E.render_class(cm, iname, plain=not sc['own_meta'])
    for o, oname in zip(sc['outers'], onames):
        hname, hty = HOLDER[o['shape']]
        L = ['@dataclass', f'class {oname}({cm["base"]}):', f'    class _({cm["base"]}.Meta):']
        for it in E.meta_items(cm, mappings=False) or ['pass']:
            L.append('        ' + it)
        if o['extra']:
            L.append('    pre: int')
        hann = hty.format(I=iname)
        if o.get('quoted'):
            hann = repr(hann)               # the reference to the nested class written as a string
        L.append(f'    {hname}: {hann}')
        src += '\n'.join(L) + '\n'
    return src


def own_keys(sc, name):
    """the documented load key and dump key of a plain single-word field of an enclosing class under the case's configuration"""
    cm = sc['cm']
    lk = name
    if cm['engine'] == 'v1':
        kc = cm['meta'].get('v1_key_case')
        if kc not in (None, 'AUTO'):
            lk = E.CASE_FN[kc](name)
    return lk, E.CASE_FN[E.dump_case_of(cm)](name)


def holder_keys(sc, o):
    hname = HOLDER[o['shape']][0]
    return (hname,) + own_keys(sc, hname)


def wrap(shape, xs):
    if shape in ('direct', 'optional'):
        return xs[0]
    if shape == 'list':
        return list(xs)
    return {'k%d' % i: x for i, x in enumerate(xs)}


def unwrap(shape, v):
    if shape in ('direct', 'optional'):
        return [v]
    if shape == 'list':
        return list(v)
    return [v[k] for k in sorted(v, key=lambda s: int(s[1:]))]


def build(sc):
    iname = model.fresh('N')
    onames = [model.fresh('R') for _ in sc['outers']]
    src = render(sc, iname, onames)
    built = E.build_module(sc['cm'], src)       # the module's spelling (future import or not) is the nested class model's
    return built, built.get(iname), [built.get(n) for n in onames], E.shown_src(sc['cm'], src)


def _load(Cls, api, doc):
    from dataclass_wizard import fromdict
    from dataclass_wizard.errors import JSONWizardError
    try:
        if api == 'method' and hasattr(Cls, 'from_dict'):
            return 'ok', Cls.from_dict(copy.deepcopy(doc))
        return 'ok', fromdict(Cls, copy.deepcopy(doc))
    except JSONWizardError as e:
        return 'err', type(e).__name__
    except Exception as e:                     # noqa
        return 'exc', type(e).__name__ + ': ' + str(e)[:200]


def _dump(obj, api):
    from dataclass_wizard import asdict
    try:
        if api == 'method' and hasattr(obj, 'to_dict'):
            return 'ok', obj.to_dict()
        return 'ok', asdict(obj)
    except Exception as e:                     # noqa
        return 'exc', type(e).__name__ + ': ' + str(e)[:200]


def run_history(sc, fail, seen=None):
    """execute the history on freshly built classes; `fail(step_index, what, src)` is called for every step whose
    outcome the documentation reference does not allow"""
    cm = sc['cm']
    built, Inner, Outers, src = build(sc)
    rules = E.ref_rules(cm)
    collides = E._collides(rules)
    try:
        for si, st in enumerate(sc['steps']):
            tgt = st['target']
            o = sc['outers'][tgt] if tgt >= 0 else None
            Cls = Outers[tgt] if tgt >= 0 else Inner
            shape = o['shape'] if o else 'direct'
            where = f'step {si + 1}/{len(sc["steps"])} ({st["op"]} via {"class " + str(tgt + 1) + " [" + shape + "]" if o else "the nested class itself"}, {st["api"]})'
            if seen:
                seen(f'nest:{cm["engine"]}:{st["op"]}', si)
            if st['op'] == 'load':
                inner_docs = [sc['docs'][i] for i in st['docs']]
                refs = [E.ref_load(cm, d) for d in inner_docs]
                if o:
                    hname, lk, _dk = holder_keys(sc, o)
                    doc = {lk: None if st['none'] else wrap(shape, inner_docs)}
                    if o['extra']:
                        doc[own_keys(sc, 'pre')[0]] = 1
                else:
                    hname, doc = None, inner_docs[0]
                kind, res = _load(Cls, st['api'], doc)
                if kind == 'exc':
                    fail(si, f'{where}: {res} escaped from the load of {doc!r}', src)
                    continue
                if o and st['none']:
                    if kind != 'ok' or getattr(res, hname) is not None:
                        fail(si, f'{where}: null under an Optional field gave {kind} {res!r}', src)
                    continue
                unj = any(r[0] == 'ok' and '__unjudged__' in r[1] for r in refs)
                if any(r[0] == 'err' for r in refs):
                    if kind == 'ok':
                        fail(si, f'{where}: a required field of the nested class has no value under any of its keys / paths, yet '
                                 f'{doc!r} loaded as {res!r}', src)
                    continue
                if kind != 'ok':
                    if not unj:
                        fail(si, f'{where}: every required field of the nested class is present under a documented key / path, '
                                 f'yet loading {doc!r} failed with {res}', src)
                    continue
                objs = unwrap(shape, getattr(res, hname)) if o else [res]
                for d, r, ob in zip(inner_docs, refs, objs):
                    for n, acc in r[1].items():
                        if acc is None:
                            continue
                        gv = getattr(ob, n)
                        if type(gv) is not int or gv not in acc:
                            fail(si, f'{where}: nested field {n} loaded {gv!r} from {d!r}, the documented sources give {sorted(acc)}', src)
                            break
            else:
                try:
                    inners = [Inner(**v) for v in st['vals']]
                    obj = Cls(**({'pre': 1} if o['extra'] else {}), **{HOLDER[shape][0]: wrap(shape, inners)}) if o else inners[0]
                except Exception as e:             # noqa
                    fail(si, f'{where}: constructing the instance failed: {e!r}', src)
                    continue
                kind, res = _dump(obj, st['api'])
                if kind != 'ok':
                    fail(si, f'{where}: {res} escaped from the dump', src)
                    continue
                if collides:
                    continue                       # colliding dump targets: no documented outcome
                exp = [E.ref_dump(cm, v) for v in st['vals']]
                if o:
                    _h, _lk, dk = holder_keys(sc, o)
                    want = {dk: wrap(shape, exp)}
                    if o['extra']:
                        want[own_keys(sc, 'pre')[1]] = 1
                else:
                    want = exp[0]
                if E.canon_doc(E.enc_doc(res)) != E.canon_doc(E.enc_doc(want)):
                    fail(si, f'{where}: dumped {res!r}, the documented targets of the nested class give {want!r}', src)
    finally:
        built.close()


def run(ctx, rng):
    ctx.rule += (' | nested: the same alias class models as the type of a field (direct / list / Optional / dict values) of 1..3 '
                 'enclosing main classes that state the configuration (nested class without Meta, or with the same Meta and then '
                 'also used stand-alone) x histories of 3..7 loads / dumps over these classes through methods or module '
                 'functions, either direction first; every step against the documentation reference.')
    n = ctx.quick(700, 7000)
    for ci in range(n):
        engine = 'v1' if ci % 2 == 0 else 'default'
        try:
            sc = gen_scenario(rng, engine)
        except IndexError:
            ctx.count('nest:gen_retry')
            continue
        idx = 300000 + ci
        if not ctx.begin_case(idx):
            if ctx.done(idx):
                break
            continue
        if ctx.done(idx):
            break

        def fail(si, what, src, sc=sc):
            ctx.fail(f'oracle:nest:{sc["cm"]["engine"]}', {'scenario': sc, 'step': si}, what, detail=src)
        # the coverage hash needs string keys throughout: documents may carry int / bool top-level keys (a path head), so
        # they go in through the typed encoding (before this, such scenarios died in the hash and were counted as
        # build errors without being judged)
        sc_enc = dict(sc, docs=[E.enc_doc(d) for d in sc['docs']])
        try:
            run_history(sc, fail, seen=lambda k, si, sc_enc=sc_enc: ctx.seen(k, [sc_enc, si]))
        except Exception as e:                     # noqa
            ctx.count('nest:build_error')
            ctx.notes.setdefault('nest_build_errors', []).append(repr(e)[:300])
