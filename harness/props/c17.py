"""C17 — patterned dates/times parse their pattern, accept ISO and survive their dump.

Correspondence: class models (pattern objects + fields whose annotations are date/time/datetime positions, bare,
subscripted `DatePattern[..]` or under `Annotated[<container>, Pattern(..)]`) are rendered to real source, loaded
through `from_dict`, dumped with `to_dict` and re-loaded; the same class model and documents go to the Lean driver
(op "c17") together with stdlib tables (`strptime`, `fromisoformat`, `isoformat`, `fromtimestamp`) computed by calling
the stdlib itself for exactly the strings in play.
Oracle: the property stated on the implementation with the stdlib as reference (see `expect_leaf`).
"""
from __future__ import annotations

import ast
import datetime as dt
import json
import random
import re
import warnings
import zoneinfo
from zoneinfo import ZoneInfo

from harness import common as C
from harness import model
from harness.model import T


class MyDate(dt.date):
    pass


class MyTime(dt.time):
    pass


class MyDT(dt.datetime):
    pass


BASE = {'date': dt.date, 'time': dt.time, 'datetime': dt.datetime}
SUBCLS = {'date': MyDate, 'time': MyTime, 'datetime': MyDT}
ZONES = ['America/New_York', 'Europe/London', 'Asia/Tokyo', 'Asia/Kolkata', 'Australia/Lord_Howe']

DATE_P = ['%Y-%m-%d', '%d/%m/%Y', '%m/%d/%Y', '%Y%m%d', '%d.%m.%Y', '%d %b %Y', '%B %d, %Y', '%A, %d %B %Y',
          '%a %d %b %Y', '%y-%m-%d', '%m/%d/%y', '%Y-%j', '%d-%m-%Y', '%Y/%m/%d', 'on %d.%m.%Y', '%Y-%m',
          '%G-W%V-%u', '%d+%m+%Y']
TIME_P = ['%H:%M:%S', '%H:%M', '%I:%M %p', '%I:%M:%S %p', '%H.%M', '%H-%M', '%H:%M:%S.%f', '%H:%M:%S%z',
          '%H.%M.%S %z', '%Hh%Mm', '%H%M', '%H%M%S', '%I%p', 'T%H:%M', '%H-%M-%S', 'at %H:%M', '%M:%S',
          '%H:%M:%S,%f', '%H+%M', '%H', '%H-%M %z']
DT_P = ['%Y-%m-%d %H:%M:%S', '%Y-%m-%dT%H:%M:%S', '%d/%m/%Y %H:%M', '%m/%d/%y %I:%M %p', '%Y%m%d%H%M%S',
        '%Y%m%dT%H%M%S', '%d %b %Y %H:%M:%S', '%a, %d %b %Y %H:%M:%S %z', '%Y-%m-%d %H:%M:%S%z',
        '%Y-%m-%dT%H:%M:%S.%f%z', '%d.%m.%Y %H.%M', '%Y-%m-%d %I:%M %p', '%d/%m/%Y at %H:%M:%S.%f']
CAT = {'date': DATE_P, 'time': TIME_P, 'datetime': DT_P}
JUNK = ['junk', '', '32/13/2022', '25:61', 'x', '2022-13-45', '12:60:00', 'T', '--', '+', 'None', '10:30 XM']

K_DASH = 'default-time-dash-pattern-no-error'
K_GUARD = 'v1-shared-pattern-object-first-type-wins'
K_NAME = 'v1-pattern-function-name-collision'
K_STICKY = 'v1-annotated-pattern-leaks-to-later-fields'
K_QUOTE = 'v1-pattern-text-quote-or-brace'
K_INNER = 'v1-inner-annotated-pattern-leaks-to-siblings'


# --------------------------------------------------------------------------- directives / truncation (reference)

def directives(p):
    return set(re.findall(r'%(.)', p))


def truncate(V, p):
    """the value a pattern determines: fields named by a directive are kept, the others take strptime's defaults"""
    ds = directives(p)
    full_date = {'G', 'V', 'u'} <= ds
    y = V.year if (ds & {'Y', 'y'} or full_date) else 1900
    m = V.month if (ds & {'m', 'b', 'B', 'j'} or full_date) else 1
    d = V.day if (ds & {'d', 'j'} or full_date) else 1
    H = V.hour if ('H' in ds or {'I', 'p'} <= ds) else 0
    M = V.minute if 'M' in ds else 0
    S = V.second if 'S' in ds else 0
    f = V.microsecond if 'f' in ds else 0
    tz = V.tzinfo if 'z' in ds else None
    return dt.datetime(y, m, d, H, M, S, f, tzinfo=tz)


def gen_value(rng, p, small=False):
    """a datetime in the representable range of pattern `p`; `small`: every field is also a valid value of the neighbouring fields
    (day <= 12, hour <= 12, minute / second <= 23), so that a text stays valid when a reading permutes them"""
    if small:
        V = gen_value(rng, p)
        return V.replace(day=rng.randint(1, 12), hour=rng.randint(0, 12), minute=rng.randint(0, 23), second=rng.randint(0, 23),
                         microsecond=rng.choice([0, 0, V.microsecond]))
    ds = directives(p)
    r = rng.random()
    if 'y' in ds:
        y = rng.randint(1969, 2068)
    elif r < 0.5:
        y = rng.randint(1970, 2037)
    elif r < 0.8:
        y = rng.randint(1900, 2100)
    else:
        y = rng.randint(1001, 9998)
    m = rng.randint(1, 12)
    dmax = [31, 29 if (y % 4 == 0 and (y % 100 != 0 or y % 400 == 0)) else 28, 31, 30, 31, 30, 31, 31, 30, 31, 30, 31][m - 1]
    d = rng.choice([1, dmax, rng.randint(1, dmax)])
    H = rng.choice([0, 12, 23, rng.randint(0, 23), rng.randint(0, 23)])
    M = rng.choice([0, 59, rng.randint(0, 59), rng.randint(0, 59)])
    S = rng.choice([0, 59, rng.randint(0, 59)])
    f = rng.choice([0, 0, 999999, 500000, rng.randint(0, 999999)])
    tz = None
    if 'z' in ds:
        off = rng.choice([0, 0, 330, -300, 60, 765, -720, rng.randint(-14 * 60, 14 * 60)])
        tz = dt.timezone(dt.timedelta(minutes=off, seconds=rng.choice([0, 0, 0, 30])))
    return dt.datetime(y, m, d, H, M, S, f, tzinfo=tz)


# --------------------------------------------------------------------------- canonical encodings

def enc_tz(tz):
    if tz is None:
        return None
    if isinstance(tz, ZoneInfo):
        return ['zone', tz.key]
    off = tz.utcoffset(None)
    return ['fixed', (off.days * 86400 + off.seconds) * 10 ** 6 + off.microseconds]


def enc_date(v):
    return [v.year, v.month, v.day]


def enc_time(v):
    return [v.hour, v.minute, v.second, v.microsecond, enc_tz(v.tzinfo)]


def enc_dt(v):
    return [v.year, v.month, v.day, v.hour, v.minute, v.second, v.microsecond, enc_tz(v.tzinfo)]


def enc_pv(v):
    if v is None:
        return ['none']
    if isinstance(v, str):
        return ['str', v]
    if isinstance(v, dt.datetime):
        return ['datetime', type(v) is not dt.datetime, enc_dt(v)]
    if isinstance(v, dt.date):
        return ['date', type(v) is not dt.date, enc_date(v)]
    if isinstance(v, dt.time):
        return ['time', type(v) is not dt.time, enc_time(v)]
    if isinstance(v, list):
        return ['list', [enc_pv(x) for x in v]]
    if isinstance(v, tuple):
        return ['tuple', [enc_pv(x) for x in v]]
    if isinstance(v, dict):
        return ['dict', [[enc_pv(k), enc_pv(x)] for k, x in v.items()]]
    return ['opaque', type(v).__name__, repr(v)[:80]]


def canon_exc(e, engine):
    from dataclass_wizard.errors import ParseError
    if isinstance(e, ParseError):
        kw = getattr(e, 'kwargs', None) or {}
        if engine == 'default':
            if 'pattern' in kw:
                return ['nomatch', [kw['pattern']]]
            return ['other']
        be = getattr(e, 'base_error', None)
        if isinstance(be, ValueError):
            m = re.search(r'with the provided patterns: (.*)$', str(be), re.S)
            if m:
                try:
                    with warnings.catch_warnings():
                        warnings.simplefilter('ignore')       # (a backslash of a pattern is not escaped in the message)
                        return ['nomatch', [str(x) for x in ast.literal_eval(m.group(1))]]
                except Exception:
                    return ['nomatch-unreadable']
        if isinstance(be, TypeError):
            return ['type']
        return ['other']
    if isinstance(e, TypeError):
        return ['type']
    if isinstance(e, AttributeError):
        return ['attr']
    return ['other']


# --------------------------------------------------------------------------- class models

def pat_expr(engine, po):
    ps = po['patterns']
    if engine == 'default':
        if po['form'] == 'ann':
            return f'DPattern({ps[0]!r})'
        return {'date': 'DDatePattern', 'time': 'DTimePattern', 'datetime': 'DDateTimePattern'}[po['kind']] + f'[{ps[0]!r}]'
    tz = po.get('tz')
    args = ', '.join(repr(p) for p in ps)
    if po['form'] == 'ann':
        if tz is None:
            return f'VPattern({args})'
        if tz == 'UTC':
            return f'VUTCPattern({args})'
        return f'VAwarePattern({tz_src(tz)}, {args})'
    k = po['kind']
    nm = {'date': 'Date', 'time': 'Time', 'datetime': 'DateTime'}[k]
    if tz is None:
        return f'V{nm}Pattern[{args}]' if len(ps) > 1 else f'V{nm}Pattern[{ps[0]!r}]'
    if tz == 'UTC':
        return f'VUTC{nm}Pattern[{args}]' if len(ps) > 1 else f'VUTC{nm}Pattern[{ps[0]!r}]'
    return f'VAware{nm}Pattern[{tz_src(tz)}, {args}]'


def ty_src(t, prefix=''):
    k = t['k']
    if k in ('str', 'int', 'float'):
        return k
    if k == 'none':
        return 'None'
    if k in ('namedtuple', 'typeddict'):
        return f'{prefix}_H{t["nid"]}'
    if k == 'union':
        return 'Union[' + ', '.join(ty_src(x, prefix) for x in t['a']) + ']'
    if k == 'leaf':
        return (SUBCLS if t['sub'] else BASE)[t['kind']].__name__
    if k == 'pat':
        return f'P{t["pid"]}'
    a = t['a']
    if k == 'annot':
        return f'Annotated[{ty_src(a[0], prefix)}, P{t["pid"]}]'
    if k == 'optional':
        return f'Optional[{ty_src(a[0], prefix)}]'
    if k == 'list':
        return f'list[{ty_src(a[0], prefix)}]'
    if k == 'tuple':
        return 'tuple[' + ', '.join(ty_src(x, prefix) for x in a) + ']'
    if k == 'dict':
        return f'dict[{ty_src(a[0], prefix)}, {ty_src(a[1], prefix)}]'
    raise ValueError(k)


SCALAR_NODES = ('str', 'int', 'float', 'none')


def helper_defs(t, prefix, out):
    """class statements of the NamedTuple / TypedDict nodes of an annotation, innermost first"""
    if t['k'] in SCALAR_NODES + ('leaf', 'pat'):
        return out
    for x in t['a']:
        helper_defs(x, prefix, out)
    if t['k'] in ('namedtuple', 'typeddict'):
        base = 'NamedTuple' if t['k'] == 'namedtuple' else 'TypedDict'
        out.append(f'class {prefix}_H{t["nid"]}({base}):')
        out += [f'    {n}: {ty_src(x, prefix)}' for n, x in zip(t['names'], t['a'])]
    return out


SRC_HEAD = '''
from dataclass_wizard import Pattern as DPattern, DatePattern as DDatePattern, TimePattern as DTimePattern, DateTimePattern as DDateTimePattern
from dataclass_wizard.v1 import (Pattern as VPattern, AwarePattern as VAwarePattern, UTCPattern as VUTCPattern,
    DatePattern as VDatePattern, TimePattern as VTimePattern, DateTimePattern as VDateTimePattern,
    AwareTimePattern as VAwareTimePattern, AwareDateTimePattern as VAwareDateTimePattern,
    UTCTimePattern as VUTCTimePattern, UTCDateTimePattern as VUTCDateTimePattern)
from dataclass_wizard.v1 import Alias as VAlias
from harness.props.c17 import MyDate, MyTime, MyDT
from zoneinfo import ZoneInfo as _ZoneInfo
from datetime import timezone as _timezone, timedelta as _timedelta
'''

# DIMENSION how the field itself is declared next to its (Annotated / subscripted) pattern: the pattern has to be found whatever field
# specifier carries the default -- a bare default, dataclasses.field with / without metadata or a factory, the library's own
# specifiers (default engine: json_field with one key / several keys and all=True; v1: Alias by position / load=).  The load and
# dump key stays the field name in every form, so documents, expectations and the model request are those of the bare form.
SPECS = {
    'plain': 'None',
    'field': 'field(default=None)',
    'field_meta': "field(default=None, metadata={{'doc': 'when it happened'}})",
    'field_factory': 'field(default_factory=lambda: None, metadata={{"unit": "s"}})',
    'json_field': 'json_field({name!r}, default=None)',
    'json_field_all': "json_field(({name!r}, 'alt_{name}'), all=True, default=None)",
    'json_field_meta': "json_field({name!r}, default=None, metadata={{'doc': 'x'}})",
    'alias': 'VAlias({name!r}, default=None)',
    'alias_load': "VAlias(load=({name!r}, 'alt_{name}'), default=None)",
    'alias_meta': "VAlias({name!r}, default=None, metadata={{'doc': 'x'}})",
}
SPECS_FOR = {'default': ['field', 'field_meta', 'field_factory', 'json_field', 'json_field_all', 'json_field_meta'],
             'v1': ['field', 'field_meta', 'field_factory', 'alias', 'alias_load', 'alias_meta']}


def pick_specs(rng, cm):
    for f in cm['fields']:
        f['spec'] = rng.choice(SPECS_FOR[cm['engine']]) if rng.random() < 0.5 else 'plain'
        # further Annotated arguments next to the pattern (a documentation string), before or after it
        f['extra'] = rng.choice(['before', 'after']) if f['ann'] is not None and rng.random() < 0.2 else None


def render(cm, cname):
    lines = [SRC_HEAD]
    for pid, po in enumerate(cm['pats']):
        lines.append(f'P{pid} = {pat_expr(cm["engine"], po)}')
    for f in cm['fields']:
        helper_defs(f['ty'], cname, lines)
    lines += ['@dataclass', f'class {cname}(JSONWizard):']
    if cm['engine'] == 'v1':
        lines += ['    class _(JSONWizard.Meta):', '        v1 = True']
    for i, f in enumerate(cm['fields']):
        s = ty_src(f['ty'], cname)
        if f['ann'] is not None:
            args = {None: f'P{f["ann"]}', 'before': f"'a note', P{f['ann']}", 'after': f"P{f['ann']}, 'a note'"}[f.get('extra')]
            s = f'Annotated[{s}, {args}]'
        lines.append(f'    f{i}: {s} = ' + SPECS[f.get('spec') or 'plain'].format(name=f'f{i}'))
    return '\n'.join(lines) + '\n'


def leaves(t, ann, out):
    """patterned / plain date-time positions of an annotation in generation order: (kind, sub, pid or None, subscripted)"""
    k = t['k']
    if k == 'leaf':
        out.append((t['kind'], t['sub'], ann, False))
    elif k == 'pat':
        out.append((t['kind'], False, t['pid'], True))
    elif k == 'annot':
        leaves(t['a'][0], t['pid'], out)         # the pattern in force below an inner Annotated is its own
    elif k not in SCALAR_NODES:
        for x in t['a']:
            leaves(x, ann, out)
    return out


def hazards(cm):
    """which known v1 hazards a class model exhibits (computed from the class model alone)"""
    hz = set()
    if cm['engine'] != 'v1':
        return hz
    bound = {}       # pid -> set of (kind, sub)
    names = {}       # name key -> set of pid
    seen_ann = False
    for f in cm['fields']:
        ls = leaves(f['ty'], f['ann'], [])
        for kind, sub, pid, subscripted in ls:
            if pid is None:
                if seen_ann:
                    hz.add(K_STICKY)
                continue
            bound.setdefault(pid, set()).add((kind, sub))
            key = ('r', kind, tuple(cm['pats'][pid]['patterns']), is_aware(cm['pats'][pid])) if subscripted else ('t', kind, sub)
            names.setdefault(key, set()).add(pid)
        if f['ann'] is not None:
            seen_ann = True
    if any(len(v) > 1 for v in bound.values()):
        hz.add(K_GUARD)
    if any(len(v) > 1 for v in names.values()):
        hz.add(K_NAME)
    return hz


# DIMENSION the declared time ZONE of the v1 Aware variants.  A zone descriptor (`po['tz']`) is None, 'UTC' (the UTC... variants), an IANA
# key given as a string, ['zoneinfo', key] (a `ZoneInfo` object given instead of its key) or ['fixed', seconds, name | None] (a fixed-offset
# `datetime.timezone` object); the last two only through the Aware forms, which take any `tzinfo`.
def tz_obj(tz):
    """the tzinfo object the property demands on the loaded value"""
    if tz is None:
        return None
    if isinstance(tz, str):
        return ZoneInfo(tz)
    if tz[0] == 'zoneinfo':
        return ZoneInfo(tz[1])
    td = dt.timedelta(seconds=tz[1])
    return dt.timezone(td) if tz[2] is None else dt.timezone(td, tz[2])


def tz_src(tz):
    """source text of the zone argument of an Aware form"""
    if isinstance(tz, str):
        return repr(tz)
    if tz[0] == 'zoneinfo':
        return f'_ZoneInfo({tz[1]!r})'
    return f'_timezone(_timedelta(seconds={tz[1]}))' if tz[2] is None else f'_timezone(_timedelta(seconds={tz[1]}), {tz[2]!r})'


def tz_model(tz):
    """the zone in the model's universe (`TZ`: a named zone is opaque, a fixed offset is its microseconds)"""
    return None if tz is None else enc_tz(tz_obj(tz))


def is_aware(po):
    """built through an Aware... form (its `patterns` attribute is then a list, not a tuple)"""
    return po['tz'] is not None and po['tz'] != 'UTC'


def leaf_t(kind, sub=False):
    return {'k': 'leaf', 'kind': kind, 'sub': sub}


def pick_patterns(rng, kind, n=1):
    out = []
    while len(out) < n:
        cat = kind if rng.random() < 0.8 else rng.choice(['date', 'time', 'datetime'])
        p = rng.choice(CAT[cat])
        if p not in out:
            out.append(p)
    return out


def shape(rng, leaf, leaf2=None, allow_optional=True):
    """a container shape around a leaf type"""
    leaf2 = leaf2 or leaf
    r = rng.random()
    if r < 0.34:
        return leaf
    if r < 0.46:
        return T('list', leaf)
    if r < 0.56:
        return T('tuple', leaf, leaf2)
    if r < 0.62:
        return T('tuple', leaf, T('str'))
    if r < 0.70:
        return T('dict', T('str'), leaf)
    if r < 0.78:
        return T('dict', leaf, leaf2)
    if r < 0.82:
        return T('dict', leaf, T('str'))
    if r < 0.90 and allow_optional and leaf['k'] == 'leaf':
        return T('optional', leaf)
    if r < 0.95 and allow_optional and leaf['k'] == 'leaf':
        return T('list', T('optional', leaf))
    return T('dict', T('str'), T('list', leaf))


def new_pat(rng, cm, kind, form, tz_ok=True):
    eng = cm['engine']
    n = 1 if eng == 'default' else rng.choice([1, 1, 1, 2, 3])
    po = {'form': form, 'kind': kind, 'patterns': pick_patterns(rng, kind, n), 'tz': None}
    if eng == 'v1' and tz_ok and kind != 'date' and rng.random() < 0.45:
        po['tz'] = rng.choice(['UTC', 'UTC'] + ZONES)
    elif eng == 'v1' and tz_ok and kind == 'date' and form == 'ann' and rng.random() < 0.06:
        po['tz'] = rng.choice(['UTC'] + ZONES)      # outside the documented API: correspondence only, no oracle
    cm['pats'].append(po)
    return len(cm['pats']) - 1


def add_field(rng, cm, kind, sub, form, container=True, pid=None, tz_ok=True):
    if form == 'plain':
        ty = shape(rng, leaf_t(kind, sub)) if container else leaf_t(kind, sub)
        cm['fields'].append({'ty': ty, 'ann': None})
        return None
    if pid is None:
        pid = new_pat(rng, cm, kind, form, tz_ok)
    if form == 'ann':
        ty = shape(rng, leaf_t(kind, sub)) if container else leaf_t(kind, sub)
        cm['fields'].append({'ty': ty, 'ann': pid})
    else:
        lf = {'k': 'pat', 'kind': kind, 'pid': pid}
        ty = shape(rng, lf, allow_optional=False) if container else lf
        cm['fields'].append({'ty': ty, 'ann': None})
    return pid


def gen_class(rng):
    """class model + the category it was generated for"""
    eng = rng.choice(['default', 'v1', 'v1'])
    cm = {'engine': eng, 'pats': [], 'fields': []}
    cat = rng.choice(['single'] * 5 + ['multi'] * 2 + ['shared', 'shared', 'mixed', 'collide', 'sticky'])
    kinds = ['date', 'time', 'time', 'datetime']
    if cat == 'single':
        kind = rng.choice(kinds)
        sub = rng.random() < 0.3
        form = rng.choice(['ann', 'ann', 'sub'])
        add_field(rng, cm, kind, sub and form == 'ann', form)
    elif cat == 'multi':
        # several patterned fields without any v1 hazard: distinct type names for Annotated fields,
        # plain fields first
        used = set()
        if rng.random() < 0.4:
            add_field(rng, cm, rng.choice(kinds), False, 'plain')
        for _ in range(rng.randint(2, 3)):
            kind = rng.choice(kinds)
            sub = rng.random() < 0.4
            form = rng.choice(['ann', 'ann', 'sub'])
            if form == 'sub':
                sub = False
            if ('t', kind, sub) in used and form == 'ann':
                continue
            if form == 'ann':
                used.add(('t', kind, sub))
            add_field(rng, cm, kind, sub, form)
        if not cm['pats']:
            add_field(rng, cm, 'time', False, 'ann')
    elif cat == 'shared':
        # ONE pattern object on two fields of different types
        k1, s1, k2, s2 = rng.choice([('date', False, 'date', True), ('date', False, 'datetime', False),
                                     ('date', True, 'date', False), ('datetime', False, 'date', False),
                                     ('time', False, 'time', True), ('datetime', False, 'datetime', True),
                                     ('datetime', False, 'time', False)])
        pid = add_field(rng, cm, k1, s1, 'ann', container=rng.random() < 0.3, tz_ok=False)
        add_field(rng, cm, k2, s2, 'ann', container=rng.random() < 0.3, pid=pid)
    elif cat == 'mixed':
        # one Annotated container holding two different date/time types
        k1, s1, k2, s2 = rng.choice([('date', False, 'time', False), ('date', False, 'date', True),
                                     ('time', False, 'time', True), ('date', False, 'datetime', False),
                                     ('time', True, 'datetime', False)])
        pid = new_pat(rng, cm, k1, 'ann', tz_ok=False)
        if eng == 'v1' and rng.random() < 0.7 and k1 != k2:
            cm['pats'][pid]['patterns'] = [rng.choice(CAT[k1]), rng.choice(CAT[k2])]
        ty = rng.choice([T('dict', leaf_t(k1, s1), leaf_t(k2, s2)), T('tuple', leaf_t(k1, s1), leaf_t(k2, s2)),
                         T('tuple', leaf_t(k1, s1), leaf_t(k2, s2), leaf_t(k1, s1))])
        cm['fields'].append({'ty': ty, 'ann': pid})
    elif cat == 'collide':
        kind = rng.choice(kinds)
        if rng.random() < 0.6 or eng == 'default':
            sub = rng.random() < 0.3
            add_field(rng, cm, kind, sub, 'ann', container=rng.random() < 0.3)
            add_field(rng, cm, kind, sub, 'ann', container=rng.random() < 0.3)
        else:
            kind = rng.choice(['time', 'datetime'])
            ps = pick_patterns(rng, kind, rng.choice([1, 2]))
            z1, z2 = rng.sample([None, 'UTC'] + ZONES, 2)
            for z in (z1, z2):
                cm['pats'].append({'form': 'sub', 'kind': kind, 'patterns': list(ps), 'tz': z})
                cm['fields'].append({'ty': {'k': 'pat', 'kind': kind, 'pid': len(cm['pats']) - 1}, 'ann': None})
    else:   # sticky: an Annotated field followed by plain date/time fields
        k1 = rng.choice(kinds)
        add_field(rng, cm, k1, rng.random() < 0.3, 'ann', container=rng.random() < 0.3)
        for _ in range(rng.randint(1, 2)):
            add_field(rng, cm, rng.choice([k1, rng.choice(kinds)]), False, 'plain', container=rng.random() < 0.3)
    return cm, cat


# --------------------------------------------------------------------------- directed families (their own seeded stream)

# DIMENSION patterns whose texts are ISO-8601 shaped but read differently (day / month, hour / minute, minute / second swapped; a sign
# that ISO reads as an offset): the documented precedence (ISO first for date / datetime on both engines; for TIME patterns containing
# '-' / '+' the default engine documents pattern first, `expect_leaf` admits both) decides what a text valid under both readings means,
# and the field's own ISO dump is such a text.
ISO_SHAPED = {
    'date': ['%Y-%d-%m', '%Y%d%m', '%Y-%d-%m', '%Y-%m-%d'],
    'time': ['%M:%H', '%S:%M:%H', '%M:%H:%S', '%H:%S:%M', '%H:%M+%S', '%H:%M-%S'],
    'datetime': ['%Y-%m-%d %M:%H', '%Y-%d-%m %H:%M', '%Y-%d-%mT%H:%M:%S', '%Y-%m-%dT%M:%H:%S', '%Y-%m-%d %H:%S:%M',
                 '%Y-%d-%m %H:%M:%S', '%Y%d%mT%H%M%S', '%Y-%m-%dT%H:%M+%S', '%Y-%m-%d %M:%H:%S'],
}


def gen_iso_shaped_class(rng):
    eng = rng.choice(['default', 'default', 'v1'])
    cm = {'engine': eng, 'pats': [], 'fields': [], 'small': True}
    used = set()
    for n in range(rng.choice([1, 1, 2])):
        kind = rng.choice(['date', 'date', 'datetime', 'datetime', 'time'])
        form = rng.choice(['ann', 'ann', 'sub'])
        sub = form == 'ann' and rng.random() < 0.3
        if form == 'ann' and ('t', kind, sub) in used:
            continue
        if form == 'ann':
            used.add(('t', kind, sub))
        pid = new_pat(rng, cm, kind, form)
        po = cm['pats'][pid]
        po['patterns'][0] = rng.choice(ISO_SHAPED[kind])
        po['patterns'] = list(dict.fromkeys(po['patterns']))
        if kind == 'time' and not ('-' in po['patterns'][0] or '+' in po['patterns'][0]):
            # KEPT OUT (genuine defect of the unchanged v1 engine, <scratch>/findings/v1-time-dash-first-permuted-pattern-dump-reload.py):
            # a time position whose pattern LIST has a permuted ISO-shaped pattern next to one containing '-' / '+' tries the patterns
            # before ISO for the whole list, so the field's own dump is re-read with swapped fields
            po['patterns'] = [p for p in po['patterns'] if not ('-' in p or '+' in p)]
        if len({(po2['kind'], tuple(po2['patterns']), is_aware(po2)) for po2 in cm['pats'] if po2['form'] == 'sub'}) < \
                sum(po2['form'] == 'sub' for po2 in cm['pats']):
            cm['pats'].pop()
            continue
        add_field(rng, cm, kind, sub, form, container=rng.random() < 0.4, pid=pid)
    return cm, 'iso-shaped'


# DIMENSION annotated types whose v1 loader is generated as a function of its own (NamedTuple, TypedDict, a Union with several
# non-None members), directly under Annotated[..., Pattern] and inside / around the in-line containers: the pattern has to reach
# every date / time position "element-wise", however the code generator splits the annotation into functions.  Also the subscripted
# form as a member type, and both engines for NamedTuple / TypedDict (the default engine's Union does not try-parse strings by design).
def gen_helper_class(rng):
    eng = rng.choice(['v1', 'v1', 'v1', 'default'])
    cm = {'engine': eng, 'pats': [], 'fields': []}
    kind = rng.choice(['date', 'time', 'datetime'])
    form = rng.choice(['ann', 'ann', 'ann', 'sub'])
    sub = form == 'ann' and rng.random() < 0.25
    pid = new_pat(rng, cm, kind, form)
    lf = leaf_t(kind, sub) if form == 'ann' else {'k': 'pat', 'kind': kind, 'pid': pid}
    nids = iter(range(100))

    def member(depth):
        r = rng.random()
        if r < 0.5:
            return lf
        if r < 0.62:
            return T('str')
        if r < 0.72:
            return T('list', lf)
        if r < 0.8:
            return T('tuple', lf, T('str'))
        if r < 0.88 and lf['k'] == 'leaf':
            return T('optional', lf)
        if depth > 0:
            return helper(depth - 1)
        return lf

    def helper(depth):
        which = rng.choice(['namedtuple', 'namedtuple', 'typeddict', 'typeddict', 'union'])
        if which == 'union' and (eng != 'v1' or form != 'ann'):
            which = rng.choice(['namedtuple', 'typeddict'])
        if which == 'union':
            others = rng.choice([['int'], ['float'], ['int', 'none'], ['none', 'int'], ['int', 'float'], ['float', 'none']])
            return T('union', lf, *[T(o) for o in others])
        n = rng.choice([1, 2, 2, 3])
        ms = [member(depth) for _ in range(n)]
        ms[rng.randrange(n)] = lf
        names = sorted(rng.sample(['a', 'b', 'at', 'label', 'start', 'end', 'when', 'x'], n))     # (see canon_enc)
        return {'k': which, 'nid': next(nids), 'names': names, 'a': ms}

    h = helper(rng.choice([0, 1, 1]))
    r = rng.random()
    if r < 0.45:
        ty = h
    elif r < 0.6:
        ty = T('list', h)
    elif r < 0.72:
        ty = T('dict', T('str'), h)
    elif r < 0.82:
        ty = T('tuple', h, lf)
    elif r < 0.92:
        ty = T('optional', h)
    else:
        ty = T('dict', T('str'), T('list', h))
    cm['fields'].append({'ty': ty, 'ann': pid if form == 'ann' else None})
    return cm, 'helper'


# DIMENSION the time zone declared with an Aware variant (its own seeded stream): whatever legal zone is declared, the four clauses hold --
# a value formatted with a declared pattern loads with THAT zone attached, ISO-8601 text loads (zone attached), the dump is ISO-8601 and
# loads back, a string matching neither is rejected naming the patterns.  The zone is drawn from the whole IANA table of the running
# system, by the lexical class of its key ('-', '+', digits, several '/', no '/', plain Area/City: America/Port-au-Prince, Etc/GMT+5,
# America/Argentina/Buenos_Aires, GB-Eire, EST5EDT ...), given as the key or as a `ZoneInfo` object, or is a fixed-offset
# `datetime.timezone` (whole hours / minutes / odd seconds, either sign, with and without a name of its own); the pattern object is the
# annotation itself (`AwareTimePattern[zone, ..]`) or sits in `Annotated[T, AwarePattern(zone, ..)]` (T possibly a user subclass), in every
# position (bare, list, tuple, dict keys / values, Optional, NamedTuple / TypedDict / Union members), alone or next to further zoned fields
# (same zone with other patterns, same patterns with another zone).  The zone is data for the loader: nothing about its spelling may
# reach the generated code.
_ZONE_CLASSES = None


def zone_classes():
    global _ZONE_CLASSES
    if _ZONE_CLASSES is None:
        keys = sorted(k for k in zoneinfo.available_timezones() if k not in ('localtime', 'Factory', 'UTC'))
        cl = {'dash': [k for k in keys if '-' in k], 'plus': [k for k in keys if '+' in k],
              'digit': [k for k in keys if any(c.isdigit() for c in k)], 'deep': [k for k in keys if k.count('/') >= 2],
              'flat': [k for k in keys if '/' not in k], 'plain': [k for k in keys if re.fullmatch(r'[A-Za-z]+/[A-Za-z]+', k)],
              'any': keys}
        _ZONE_CLASSES = {c: v for c, v in cl.items() if v}
    return _ZONE_CLASSES


def gen_zone(rng):
    r = rng.random()
    if r < 0.62:
        cl = zone_classes()
        key = rng.choice(cl[rng.choice(sorted(cl))])
        return key if rng.random() < 0.6 else ['zoneinfo', key]
    if r < 0.66:
        return ['zoneinfo', 'UTC']
    secs = rng.choice([0, 19800, -18000, 3600, 45900, -43200, 50400, -12600, 60 * rng.randint(-1439, 1439), rng.randint(-86399, 86399)])
    return ['fixed', secs, rng.choice([None, None, None, 'CET', 'X-1', 'UTC+05:30', 'local time', "o'clock"])]


def gen_zone_class(rng):
    if rng.random() < 0.25:
        # a zoned pattern on / in a type whose loader is a generated function of its own
        while True:
            cm, _ = gen_helper_class(rng)
            if cm['engine'] == 'v1' and cm['pats'][0]['kind'] != 'date':
                break
        cm['pats'][0]['tz'] = gen_zone(rng)
        return cm, 'zone'
    cm = {'engine': 'v1', 'pats': [], 'fields': []}
    for _ in range(rng.choice([1, 1, 2, 3])):
        kind = rng.choice(['time', 'datetime'])
        form = rng.choice(['sub', 'sub', 'ann'])
        sub = form == 'ann' and rng.random() < 0.3
        pid = new_pat(rng, cm, kind, form, tz_ok=False)
        po, r = cm['pats'][pid], rng.random()
        if pid > 0 and r < 0.2:
            po['tz'] = cm['pats'][rng.randrange(pid)]['tz']                                  # the same zone again
        elif pid > 0 and r < 0.4 and cm['pats'][pid - 1]['kind'] == kind:
            po['patterns'], po['tz'] = list(cm['pats'][pid - 1]['patterns']), gen_zone(rng)       # the same patterns under another zone
        else:
            po['tz'] = gen_zone(rng)
        add_field(rng, cm, kind, sub, form, container=rng.random() < 0.5, pid=pid)
    return cm, 'zone'


# DIMENSION the LITERAL TEXT of a pattern (its own seeded stream): a pattern is data -- whatever characters stand between its directives
# (quotes, braces, backslashes, '%%', '#', '$', back-quotes, brackets, words), a value formatted with it loads, and a string matching
# neither is rejected with an error naming exactly the declared patterns.  Both engines, both declaration forms, every position.
# KNOWN (genuine defect of the unchanged v1 engine, findings/v1-pattern-text-quote-or-brace.py): the v1 code generator pastes the
# patterns' repr into an f-string literal, so ' " { } \ in a pattern break the generated source or mangle the pattern named by the error;
# failures of v1 classes with such a pattern are attributed to that entry while the probe shows the defect (`attribute`), and such classes
# are not sent to the model (which has no such mode).
LITERALS = ["'", '"', '{', '}', '{{', '}}', '{x}', '\\', "o'clock", ' "h" ', '%%', '#', '$', '`', ' of ', ';', '(', ')', '[', ']', ' @ ', '\\n',
            "''", '~', '!r', ' = ']
QUOTE_CHARS = set('\'"{}\\')


def with_literal(rng, p):
    toks = re.findall(r'%.|[^%]+', p)
    for _ in range(rng.choice([1, 1, 2])):
        toks.insert(rng.randrange(len(toks) + 1), rng.choice(LITERALS))
    return ''.join(toks)


def quote_hazard(cm):
    return cm['engine'] == 'v1' and any(QUOTE_CHARS & set(p) for po in cm['pats'] for p in po['patterns'])


def gen_literal_class(rng):
    eng = rng.choice(['default', 'v1', 'v1'])
    cm = {'engine': eng, 'pats': [], 'fields': []}
    used = set()
    for _ in range(rng.choice([1, 1, 2])):
        kind = rng.choice(['date', 'time', 'time', 'datetime'])
        form = rng.choice(['ann', 'sub'])
        sub = form == 'ann' and rng.random() < 0.25
        if form == 'ann' and ('t', kind, sub) in used:
            continue
        used.add(('t', kind, sub))
        pid = new_pat(rng, cm, kind, form)
        po = cm['pats'][pid]
        j = rng.randrange(len(po['patterns']))
        po['patterns'][j] = with_literal(rng, po['patterns'][j])
        add_field(rng, cm, kind, sub, form, container=rng.random() < 0.35, pid=pid)
    return cm, 'literal'


# DIMENSION an Annotated[T, Pattern] INSIDE a field's annotation (its own seeded stream, v1: the engine reads Annotated at any depth): the
# inner pattern holds for the positions below it and for nothing else -- the other positions of the field keep the pattern annotating the
# container (or none: ISO only).  Containers whose elements mix inner-annotated and plain positions, with / without an outer pattern.
# KNOWN (genuine defect of the unchanged v1 engine, findings/v1-inner-annotated-pattern-leaks-to-siblings.py): positions generated AFTER
# an inner Annotated in the same field are read with the inner pattern; failures of fields of that shape are attributed to that entry
# while the probe shows the defect.  (Oracle only: the model's type universe has no inner Annotated.)
def inner_leak_hazard(t):
    """a date / time position follows, in generation order, an inner Annotated node that does not contain it"""
    state = {'left': False, 'hit': False}

    def walk(x):
        k = x['k']
        if k in ('leaf', 'pat'):
            if state['left']:
                state['hit'] = True
        elif k == 'annot':
            for y in x['a']:
                walk(y)
            state['left'] = True
        elif k not in SCALAR_NODES:
            for y in x['a']:
                walk(y)
    walk(t)
    return state['hit']


def gen_inner_class(rng):
    cm = {'engine': 'v1', 'pats': [], 'fields': []}
    kinds = ['date', 'time', 'datetime']
    outer = None
    k0 = rng.choice(kinds)
    if rng.random() < 0.7:
        outer = new_pat(rng, cm, k0, 'ann', tz_ok=False)

    def inner(kind, simple=False):
        pid = new_pat(rng, cm, kind, 'ann', tz_ok=rng.random() < 0.3)
        lf = leaf_t(kind, rng.random() < 0.2)
        body = lf if simple or rng.random() < 0.75 else rng.choice([T('list', lf), T('tuple', lf, T('str')), T('dict', T('str'), lf)])
        return {'k': 'annot', 'pid': pid, 'a': [body]}

    def plain(kind):
        return leaf_t(kind, rng.random() < 0.2)

    def elem(simple=False):
        kind = k0 if rng.random() < 0.7 else rng.choice(kinds)
        return inner(kind, simple) if rng.random() < 0.5 else plain(kind)

    r = rng.random()
    if r < 0.45:
        n = rng.choice([2, 2, 3])
        els = [elem() for _ in range(n)]
        els[rng.randrange(n)] = inner(k0)
        ty = T('tuple', *els)
    elif r < 0.6:
        ty = T('list', inner(k0))
    elif r < 0.8:
        ty = T('dict', elem(True), inner(k0)) if rng.random() < 0.5 else T('dict', inner(k0, True), elem())
    elif r < 0.9:
        ty = T('dict', T('str'), T('tuple', inner(k0), plain(k0)))
    else:
        ty = T('tuple', T('list', inner(k0)), plain(k0), T('str'))
    cm['fields'].append({'ty': ty, 'ann': outer})
    if rng.random() < 0.3:
        add_field(rng, cm, rng.choice(kinds), False, 'plain', container=False)      # a later field: no pattern at all
    return cm, 'inner'


def gen_family_class(rng, j):
    return gen_helper_class(rng) if j % 2 == 0 else gen_iso_shaped_class(rng)


# --------------------------------------------------------------------------- documents and expectations

def zone_of(tz):
    return tz_obj(tz)


def leaf_spec(cm, kind, sub, pid):
    """the clean reading of a position: its own type, the patterns / zone of the pattern object in force"""
    if pid is None:
        return dict(kind=kind, sub=sub, patterns=None, tz=None)
    po = cm['pats'][pid]
    return dict(kind=kind, sub=sub, patterns=po['patterns'], tz=po['tz'])


def iso_read(kind, text):
    try:
        return BASE[kind].fromisoformat(text)
    except ValueError:
        return None


def convert(engine, spec, V):
    """the documented conversion of a strptime result for a target type (+ declared zone)"""
    kind, tz = spec['kind'], zone_of(spec['tz'])
    cls = (SUBCLS if spec['sub'] else BASE)[kind]
    if kind == 'date':
        return cls(V.year, V.month, V.day)
    if kind == 'time':
        # v1 keeps an offset parsed by %z (`.timetz()`, repair a177ce9) unless a zone is declared; the default engine
        # converts with `.time()`, which is naive by definition
        keep = V.tzinfo if engine == 'v1' else None
        return cls(V.hour, V.minute, V.second, V.microsecond, tzinfo=tz if tz is not None else keep)
    if tz is not None:
        V = V.replace(tzinfo=tz)
    return cls(V.year, V.month, V.day, V.hour, V.minute, V.second, V.microsecond, tzinfo=V.tzinfo)


def iso_convert(spec, v):
    kind, tz = spec['kind'], zone_of(spec['tz'])
    cls = (SUBCLS if spec['sub'] else BASE)[kind]
    if kind == 'date':
        return cls(v.year, v.month, v.day)
    if tz is not None:
        v = v.replace(tzinfo=tz)
    if kind == 'time':
        return cls(v.hour, v.minute, v.second, v.microsecond, tzinfo=v.tzinfo)
    return cls(v.year, v.month, v.day, v.hour, v.minute, v.second, v.microsecond, tzinfo=v.tzinfo)


def expect_leaf(engine, spec, text):
    """what the property demands of a string at a position: ('ok', [acceptable canonical values]) or ('err', patterns)"""
    kind = spec['kind']
    if kind == 'date' and spec['tz'] is not None:
        return ('skip',)
    iso = iso_read(kind, text)
    if spec['patterns'] is None:
        return ('ok', [enc_pv(iso_convert(spec, iso))]) if iso is not None else ('err', None)
    pat = None
    for p in spec['patterns']:
        try:
            pat = dt.datetime.strptime(text, p)
            break
        except ValueError:
            continue
    acc = []
    dash = kind == 'time' and any('-' in p or '+' in p for p in spec['patterns'])
    if iso is not None:
        acc.append(enc_pv(iso_convert(spec, iso)))
    if pat is not None and (iso is None or dash):
        acc.append(enc_pv(convert(engine, spec, pat)))
    if acc:
        return ('ok', acc)
    return ('err', list(spec['patterns']))


def iso_text(rng, kind, V):
    if kind == 'date':
        return V.date().isoformat()
    if kind == 'time':
        t = V.timetz()
    else:
        t = V
    if t.tzinfo is None and rng.random() < 0.3:
        t = t.replace(tzinfo=dt.timezone(dt.timedelta(minutes=rng.choice([0, 0, 330, -300]))))
    s = t.isoformat()
    if s.endswith('+00:00') and rng.random() < 0.6:
        s = s[:-6] + 'Z'
    return s


def gen_text(rng, cm, spec, mode, law):
    """a string for a leaf position"""
    kind = spec['kind']
    if mode == 'junk':
        return rng.choice(JUNK)
    pats = spec['patterns']
    if mode == 'cross' or (pats is None and mode == 'pattern'):
        allp = [p for po in cm['pats'] for p in po['patterns']]
        pats = allp or CAT[kind]
        mode = 'pattern'
    if mode == 'pattern':
        p = rng.choice(pats)
        V = gen_value(rng, p, small=cm.get('small', False) and rng.random() < 0.6)
        s = V.strftime(p)
        law.append((p, V, s))
        return s
    V = gen_value(rng, rng.choice(CAT[kind]), small=cm.get('small', False) and rng.random() < 0.6)
    return iso_text(rng, kind, V)


def gen_doc(rng, cm, t, ann, mode, law, top=True):
    """(document, expectation) for an annotation; expectation: ('ok', [alternatives]) / ('err', patterns|None) / ('skip',)"""
    k = t['k']
    if k == 'str':
        s = rng.choice(['k', 'key', 'a b', ''])
        return s, ('ok', [['str', s]])
    if k in ('leaf', 'pat'):
        pid = t['pid'] if k == 'pat' else ann
        spec = leaf_spec(cm, t['kind'], t.get('sub', False), pid)
        m = mode
        if mode == 'mix':
            m = rng.choice(['pattern', 'pattern', 'iso'])
        s = gen_text(rng, cm, spec, m, law)
        return s, expect_leaf(cm['engine'], spec, s)
    a = t['a']
    if k == 'annot':
        return gen_doc(rng, cm, a[0], t['pid'], mode, law, top)
    if k == 'optional':
        if rng.random() < (0.5 if mode == 'none' else 0.15):
            return None, ('ok', [['none']])
        return gen_doc(rng, cm, a[0], ann, mode, law, False)
    if k == 'union':
        # a[0] is the date / time member, the others are int / float / None: a text goes to a[0] (pattern, ISO) or to nobody
        if mode == 'none' and any(x['k'] == 'none' for x in a) and rng.random() < 0.5:
            return None, ('ok', [['none']])
        d, e = gen_doc(rng, cm, a[0], ann, mode, law, False)
        return d, (('err', None) if e[0] == 'err' else e)       # which error a Union raises is not this property's business
    if k == 'namedtuple':
        j = rng.randrange(len(a))
        docs = [gen_doc(rng, cm, x, ann, 'mix' if mode == 'junk' and i != j else mode, law, False) for i, x in enumerate(a)]
        return [d for d, _ in docs], combine('tuple', [e for _, e in docs])
    if k == 'typeddict':
        j = rng.randrange(len(a))
        docs = [gen_doc(rng, cm, x, ann, 'mix' if mode == 'junk' and i != j else mode, law, False) for i, x in enumerate(a)]
        return ({n: d for n, (d, _) in zip(t['names'], docs)},
                combine('dict', [pair(('ok', [['str', n]]), e) for n, (_, e) in zip(t['names'], docs)]))
    if k == 'list':
        n = rng.choice([0, 1, 2, 3])
        docs = [gen_doc(rng, cm, a[0], ann, 'mix' if mode == 'junk' and i != 0 else mode, law, False) for i in range(n)]
        return [d for d, _ in docs], combine('list', [e for _, e in docs])
    if k == 'tuple':
        j = rng.randrange(len(a))
        docs = [gen_doc(rng, cm, x, ann, 'mix' if mode == 'junk' and i != j else mode, law, False) for i, x in enumerate(a)]
        return [d for d, _ in docs], combine('tuple', [e for _, e in docs])
    if k == 'dict':
        n = rng.choice([0, 1, 2])
        out, exps = {}, []
        for i in range(n):
            kd, ke = gen_doc(rng, cm, a[0], ann, 'mix' if mode == 'junk' else mode, law, False)
            vd, ve = gen_doc(rng, cm, a[1], ann, 'mix' if mode == 'junk' and i != 0 else mode, law, False)
            if kd in out:
                continue
            out[kd] = vd
            exps.append(pair(ke, ve))
        e = combine('dict', exps)
        return out, e
    raise ValueError(k)


def pair(ke, ve):
    if ke[0] == 'ok' and ve[0] == 'ok':
        if len(ke[1]) * len(ve[1]) > 8:
            return ('skip',)
        return ('ok', [[x, y] for x in ke[1] for y in ve[1]])
    if 'skip' in (ke[0], ve[0]):
        return ('skip',)
    return ('err', None)


def combine(tag, exps):
    if any(e[0] == 'err' for e in exps):
        return ('err', None)
    if any(e[0] == 'skip' for e in exps):
        return ('skip',)
    alts = [[]]
    for e in exps:
        alts = [x + [y] for x in alts for y in e[1]]
        if len(alts) > 16:
            return ('skip',)
    return ('ok', [[tag, x] for x in alts])


def strings_of(v, out):
    if isinstance(v, str):
        out.add(v)
    elif isinstance(v, (list, tuple)):
        for x in v:
            strings_of(x, out)
    elif isinstance(v, dict):
        for k, x in v.items():
            strings_of(k, out)
            strings_of(x, out)
    return out


def nums_of(v, out):
    if isinstance(v, (bool, int, float)):
        out.append(v)
    elif isinstance(v, (list, tuple)):
        for x in v:
            nums_of(x, out)
    elif isinstance(v, dict):
        for x in v.values():
            nums_of(x, out)
    return out


def iso_z(s):
    return s[:-6] + 'Z' if s.endswith('+00:00') else s


# --------------------------------------------------------------------------- stdlib tables

def std_tables(cm, docs):
    pats = sorted({p for po in cm['pats'] for p in po['patterns']})
    zones = {json.dumps(tz_model(po['tz'])): po['tz'] for po in cm['pats'] if po['tz']}
    tzs = [None] + [tz_obj(zones[z]) for z in sorted(zones)]
    texts, nums = set(), []
    for d in docs:
        strings_of(d, texts)
        nums_of(d, nums)
    T_ = dict(strptime=[], date_iso=[], time_iso=[], datetime_iso=[], iso_date=[], iso_time=[], iso_datetime=[],
              date_ts=[], datetime_ts=[])
    done_text, vals = set(), {'date': {}, 'time': {}, 'datetime': {}}

    def note(kind, v):
        key = json.dumps({'date': enc_date, 'time': enc_time, 'datetime': enc_dt}[kind](v))
        vals[kind].setdefault(key, v)

    def candidates(kind, v):
        """values the model may derive from a primitive's result"""
        if kind == 'date':
            note('date', v)
            return
        if kind == 'time':
            for z in tzs:
                note('time', v.replace(tzinfo=z) if z is not None else v)
            note('time', v.replace(tzinfo=None))
            return
        note('date', v.date())
        note('time', v.time())
        for z in tzs:
            w = v.replace(tzinfo=z) if z is not None else v
            note('datetime', w)
            if z is not None:
                note('time', v.time().replace(tzinfo=z))

    def add_text(s, closing=False):
        for t in {s, s.replace('Z', '+00:00', 1)}:
            if t in done_text:
                continue
            done_text.add(t)
            for kind, name, enc in (('date', 'date_iso', enc_date), ('time', 'time_iso', enc_time), ('datetime', 'datetime_iso', enc_dt)):
                v = iso_read(kind, t)
                T_[name].append([t, None if v is None else enc(v)])
                if v is not None and not closing:
                    candidates(kind, v)
                elif v is not None:
                    note(kind, v)
            for p in pats:
                try:
                    v = dt.datetime.strptime(t, p)
                except ValueError:
                    v = None
                T_['strptime'].append([p, t, None if v is None else enc_dt(v)])
                if v is not None and not closing:
                    candidates('datetime', v)

    for s in sorted(texts):
        add_text(s)
    seen_n = set()
    for x in nums:
        kx = json.dumps(model._num_key(int(x) if isinstance(x, bool) else x))
        if kx in seen_n:
            continue
        seen_n.add(kx)
        xv = int(x) if isinstance(x, bool) else x
        nk = model._num_key(xv)
        try:
            v = dt.date.fromtimestamp(xv)
            candidates('date', v)
            T_['date_ts'].append([nk, enc_date(v)])
        except ValueError:
            T_['date_ts'].append([nk, 'ValueError'])
        except Exception:
            T_['date_ts'].append([nk, None])
        for z in [None, dt.timezone.utc] + tzs[1:]:
            try:
                v = dt.datetime.fromtimestamp(xv, z)
                note('datetime', v)
                T_['datetime_ts'].append([nk, enc_tz(z), enc_dt(v)])
            except ValueError:
                T_['datetime_ts'].append([nk, enc_tz(z), 'ValueError'])
            except Exception:
                T_['datetime_ts'].append([nk, enc_tz(z), None])
    # isoformat of every candidate, and the primitives on the dumped texts (the reload)
    for kind, name, enc in (('date', 'iso_date', enc_date), ('time', 'iso_time', enc_time), ('datetime', 'iso_datetime', enc_dt)):
        for key in sorted(vals[kind]):
            v = vals[kind][key]
            try:
                s = v.isoformat()
            except Exception:
                continue
            T_[name].append([enc(v), s])
    for kind, name in (('date', 'iso_date'), ('time', 'iso_time'), ('datetime', 'iso_datetime')):
        for _v, s in list(T_[name]):
            add_text(iso_z(s), closing=True)
    return T_


# --------------------------------------------------------------------------- quirk probes (on the implementation)

PROBE_SRC = SRC_HEAD + '''
@dataclass
class QD(JSONWizard):
    t: DTimePattern['%H-%M'] = None

PG = VPattern('%d/%m/%Y')
@dataclass
class QG(JSONWizard):
    class _(JSONWizard.Meta):
        v1 = True
    a: Annotated[date, PG] = None
    b: Annotated[datetime, PG] = None

@dataclass
class QN(JSONWizard):
    class _(JSONWizard.Meta):
        v1 = True
    a: Annotated[date, VPattern('%d/%m/%Y')] = None
    b: Annotated[date, VPattern('%Y.%m.%d')] = None

@dataclass
class QS(JSONWizard):
    class _(JSONWizard.Meta):
        v1 = True
    a: Annotated[date, VPattern('%d/%m/%Y')] = None
    b: date = None

@dataclass
class QQ(JSONWizard):
    class _(JSONWizard.Meta):
        v1 = True
    t: VTimePattern["%H o'clock {x}"] = None

@dataclass
class QI(JSONWizard):
    class _(JSONWizard.Meta):
        v1 = True
    f: Annotated[tuple[Annotated[date, VPattern('%Y.%m.%d')], date], VPattern('%d/%m/%Y')] = None
'''


def probe_quirks():
    """witness inputs of the four known deviation modes, run on the implementation (real classes in a real module)"""
    q = dict(dash=False, guard=False, name=False, sticky=False, quote=False, inner=False)
    built = model.Built(T('any'), extra_src=PROBE_SRC)
    try:
        QD, QG, QN, QS = (built.get(n) for n in ('QD', 'QG', 'QN', 'QS'))
        try:
            QD.from_dict({'t': 'junk'})
            q['dash'] = True
        except Exception as e:
            q['dash'] = canon_exc(e, 'default')[0] != 'nomatch'
        try:
            q['guard'] = type(QG.from_dict({'b': '01/02/2022'}).b) is not dt.datetime
        except Exception:
            q['guard'] = True
        try:
            q['name'] = QN.from_dict({'a': '01/02/2022'}).a != dt.date(2022, 2, 1)
        except Exception:
            q['name'] = True
        try:
            QS.from_dict({'b': '01/02/2022'})
            q['sticky'] = True
        except Exception:
            q['sticky'] = False
        try:
            q['quote'] = built.get('QQ').from_dict({'t': "07 o'clock {x}"}).t != dt.time(7)
        except Exception:
            q['quote'] = True
        try:
            q['inner'] = built.get('QI').from_dict({'f': ['2024.03.09', '10/03/2024']}).f != (dt.date(2024, 3, 9), dt.date(2024, 3, 10))
        except Exception:
            q['inner'] = True
    finally:
        built.close()
    return q


# --------------------------------------------------------------------------- evaluation

def canon_enc(t, e):
    """`enc_pv` form with the items of every TypedDict position in key order (the loaders fill a TypedDict in the iteration order of
    its `__required_keys__`, a frozenset: the order of the loaded dict is not part of its value)"""
    k = t['k']
    if not isinstance(e, list) or k in SCALAR_NODES + ('leaf', 'pat'):
        return e
    a = t['a']
    if k in ('optional', 'union'):
        return canon_enc(a[0], e)
    if k == 'list' and e[0] == 'list':
        return ['list', [canon_enc(a[0], x) for x in e[1]]]
    if k in ('tuple', 'namedtuple') and e[0] == 'tuple' and len(e[1]) == len(a):
        return ['tuple', [canon_enc(x, y) for x, y in zip(a, e[1])]]
    if k == 'dict' and e[0] == 'dict':
        return ['dict', [[canon_enc(a[0], kk), canon_enc(a[1], vv)] for kk, vv in e[1]]]
    if k == 'typeddict' and e[0] == 'dict':
        by = {n: x for n, x in zip(t['names'], a)}
        items = sorted(e[1], key=lambda kv: json.dumps(kv[0]))
        return ['dict', [[kk, canon_enc(by[kk[1]], vv) if kk[0] == 'str' and kk[1] in by else vv] for kk, vv in items]]
    return e


def canon_dump(t, d):
    """the JSON dump with the keys of every TypedDict position in key order"""
    k = t['k']
    if k in SCALAR_NODES + ('leaf', 'pat') or d is None:
        return d
    a = t['a']
    if k in ('optional', 'union'):
        return canon_dump(a[0], d)
    if k == 'list' and isinstance(d, list):
        return [canon_dump(a[0], x) for x in d]
    if k in ('tuple', 'namedtuple') and isinstance(d, list) and len(d) == len(a):
        return [canon_dump(x, y) for x, y in zip(a, d)]
    if k == 'dict' and isinstance(d, dict):
        return {kk: canon_dump(a[1], vv) for kk, vv in d.items()}
    if k == 'typeddict' and isinstance(d, dict):
        by = {n: x for n, x in zip(t['names'], a)}
        return {kk: canon_dump(by[kk], d[kk]) if kk in by else d[kk] for kk in sorted(d)}
    return d


def eval_impl(Cls, engine, name, doc, ty=None):
    td = ty is not None and 'typeddict' in json.dumps(ty)
    try:
        x = Cls.from_dict({name: doc})
    except Exception as e:
        return {'load': {'err': canon_exc(e, engine)}}, None, None
    v = getattr(x, name)
    out = {'load': {'ok': canon_enc(ty, enc_pv(v)) if td else enc_pv(v)}}
    try:
        d = json.loads(json.dumps(x.to_dict()[name]))
    except Exception as e:
        out['dump'] = {'raised': type(e).__name__}
        return out, v, None
    if td:
        d = canon_dump(ty, d)
    out['dump'] = model.enc_j(d)
    try:
        y = Cls.from_dict({name: d})
        out['reload'] = {'ok': canon_enc(ty, enc_pv(getattr(y, name))) if td else enc_pv(getattr(y, name))}
    except Exception as e:
        out['reload'] = {'err': canon_exc(e, engine)}
    return out, v, d


def dumped_leaves_ok(t, d):
    """every dumped date/time position is an ISO-8601 string of its type"""
    k = t['k']
    if d is None:
        return True
    if k == 'str':
        return isinstance(d, str)
    if k in ('leaf', 'pat'):
        return isinstance(d, str) and iso_read(t['kind'], d) is not None
    a = t['a']
    if k in ('optional', 'annot'):
        return dumped_leaves_ok(a[0], d)
    if k == 'list':
        return isinstance(d, list) and all(dumped_leaves_ok(a[0], x) for x in d)
    if k == 'tuple':
        return isinstance(d, list) and len(d) == len(a) and all(dumped_leaves_ok(x, y) for x, y in zip(a, d))
    if k == 'dict':
        return isinstance(d, dict) and all(dumped_leaves_ok(a[0], kk) and dumped_leaves_ok(a[1], vv) for kk, vv in d.items())
    if k == 'union':
        return dumped_leaves_ok(a[0], d) if isinstance(d, str) else True
    if k == 'namedtuple':
        return isinstance(d, list) and len(d) == len(a) and all(dumped_leaves_ok(x, y) for x, y in zip(a, d))
    if k == 'typeddict':
        return isinstance(d, dict) and sorted(d) == sorted(t['names']) and all(dumped_leaves_ok(x, d[n]) for n, x in zip(t['names'], a))
    return False


def model_ty(t):
    """the annotation in the model's type universe (DW/Model/C17.lean `PTy`), or None: a NamedTuple loads from / dumps to a list like
    the fixed tuple of its members; a TypedDict whose members all have one type like dict[str, that type]; Unions are oracle-only"""
    k = t['k']
    if k in ('str', 'leaf', 'pat'):
        return t
    if k in ('int', 'float', 'none', 'union', 'annot'):
        return None
    a = [model_ty(x) for x in t['a']]
    if any(x is None for x in a):
        return None
    if k == 'namedtuple':
        return T('tuple', *a)
    if k == 'typeddict':
        if any(json.dumps(x, sort_keys=True) != json.dumps(a[0], sort_keys=True) for x in a):
            return None
        return T('dict', T('str'), a[0])
    return dict(t, a=a)


def key_collision(doc, enc):
    """two keys of a document dict loaded to equal values (the loaded dict is shorter)"""
    if isinstance(doc, dict):
        if enc[0] != 'dict' or len(enc[1]) != len(doc):
            return True
        return any(key_collision(v, e[1]) for v, e in zip(doc.values(), enc[1]))
    if isinstance(doc, list) and enc[0] in ('list', 'tuple') and len(enc[1]) == len(doc):
        return any(key_collision(v, e) for v, e in zip(doc, enc[1]))
    return False


def attribute(cm, hz, quirks, f, doc, what_kind):
    """known-finding key of an oracle failure, from the class model alone"""
    if cm['engine'] == 'default':
        ls = leaves(f['ty'], f['ann'], [])
        dash = any(kind == 'time' and pid is not None and any('-' in p or '+' in p for p in cm['pats'][pid]['patterns'])
                   for kind, _s, pid, _x in ls)
        if dash and quirks['dash'] and what_kind == 'neither':
            return K_DASH
        return None
    for key, qn in ((K_GUARD, 'guard'), (K_NAME, 'name'), (K_STICKY, 'sticky')):
        if key in hz and quirks[qn]:
            return key
    if quirks.get('quote') and quote_hazard(cm) and what_kind in ('value', 'neither'):
        return K_QUOTE
    if quirks.get('inner') and inner_leak_hazard(f['ty']):
        return K_INNER
    return None


def _fail(ctx, kind, case, what, key=None, detail=None):
    """record an oracle failure; failures attributed to a known-finding key are recorded a few times each and counted
    beyond that, so they cannot crowd unattributed failures out of the (capped) failure list"""
    if key is not None:
        ctx.count('attributed:' + key)
        if ctx.kind_counts['attributed:' + key] > 4:
            return
    ctx.fail(kind, case, what, key=key, detail=detail)


def run(ctx: C.Ctx):
    from dataclass_wizard import JSONWizard  # noqa
    rng = ctx.rng
    ctx.rule = ('class models: engine {default, v1} × pattern objects (52 strptime patterns incl. -, +, %z, %p, %j, %y, ISO week, literal text, '
                'ISO-shaped ones; v1: 1-3 patterns, zone none/UTC/named) in Annotated[...] or subscripted form × target date/time/datetime or '
                'user subclass × position (bare, list, tuple, dict keys/values, Optional, nested) × class category (single, several fields, one '
                'pattern object shared by two types, mixed types in one container, same-type pattern pairs, patterned then plain fields) × field '
                'specifier carrying the default (bare, field(...) with / without metadata or factory, json_field / Alias forms) × further Annotated arguments; '
                'directed families on their own seeded stream: Annotated / subscripted patterns on NamedTuple, TypedDict and (v1) non-Optional Union '
                'types, alone and inside / around list, dict, tuple, Optional (the pattern must reach positions loaded by separately generated '
                'functions); ISO-shaped patterns that read ISO text differently (%Y-%d-%m, %Y-%m-%d %M:%H, %H:%S:%M, a sign ISO reads as an offset) with '
                'values valid under both readings; the declared zone of the v1 Aware variants (any key of the IANA table by lexical class: -, +, digits, '
                'several /, no /; ZoneInfo objects; fixed-offset timezone objects with / without a name) x subscripted / Annotated form x every position; '
                'literal text between the directives of a pattern (quotes, braces, backslashes, %%, brackets, words; both engines); '
                'Annotated[T, Pattern] inside a field annotation next to plain positions, with / without an outer pattern (v1; oracle only); '
                'per field documents in modes pattern / ISO / mixed / junk / other-pattern / number / null; each through from_dict, to_dict, '
                'from_dict again on the implementation (oracle: stdlib strptime/fromisoformat readings, truncation law checked) and through the '
                'Lean model with stdlib-backed tables. Non-trivial = distinct (class model, field, document).')
    ctx.trusted += [
        'StdLaw (hypothesis of C17_dump_reload*): fromisoformat(isoformat(v)) == v up to the declared zone, isoformat() contains no Z — sampled here on every loaded value',
        'StdLaw (oracle only): strptime(strftime(v, p), p) == truncate_p(v) for the 52 patterns in their representable range — checked on every generated text',
        'PatStd tables (strptime/fromisoformat/isoformat/fromtimestamp) are computed by CPython 3.12 for exactly the strings in play',
    ]
    ctx.assumptions += ['fold is not modelled', 'containers only with well-formed documents', 'process time zone is UTC',
                        'an Aware/UTC pattern on a `date` target is outside the documented API and not generated']
    quirks = probe_quirks()
    ctx.notes['quirks_probed'] = quirks
    ncls = ctx.quick(1200, 12000)
    nfam = ctx.quick(500, 5000)
    nzone = ctx.quick(400, 4000)
    nlit = ctx.quick(300, 3000)
    ninner = ctx.quick(300, 3000)
    main_rng, frng, zrng = rng, random.Random(f'C17:{ctx.seed}:families'), random.Random(f'C17:{ctx.seed}:zones')
    lrng, irng = random.Random(f'C17:{ctx.seed}:literals'), random.Random(f'C17:{ctx.seed}:inner')
    reqs, pend = [], []
    for i in range(ncls + nfam + nzone + nlit + ninner):
        if ctx.done(i):
            break
        # the directed families have their own seeded streams (the main stream is the same with and without them)
        rng = (main_rng if i < ncls else frng if i < ncls + nfam else zrng if i < ncls + nfam + nzone else
               lrng if i < ncls + nfam + nzone + nlit else irng)
        cm, cat = (gen_class(rng) if i < ncls else gen_family_class(rng, i - ncls) if i < ncls + nfam else
                   gen_zone_class(rng) if i < ncls + nfam + nzone else gen_literal_class(rng) if i < ncls + nfam + nzone + nlit else
                   gen_inner_class(rng))
        if not cm['fields']:
            continue
        pick_specs(rng, cm)
        law = []
        loads = []       # (field index, mode, doc, expectation)
        for fi, f in enumerate(cm['fields']):
            modes = ['pattern', 'pattern', 'iso', 'junk', 'mix', 'cross']
            if f['ty']['k'] in ('leaf', 'pat'):
                modes += ['number']
            if 'optional' in json.dumps(f['ty']) or '"none"' in json.dumps(f['ty']):
                modes += ['none']
            for mode in modes:
                if mode == 'number':
                    doc = rng.choice([0, 1, 86400 * 365, 1500000000, 1.5e9, 1234567890.25, True, False, -86400, 10 ** 20, 253402300800, None, None])
                    exp = ('skip',)
                else:
                    doc, exp = gen_doc(rng, cm, f['ty'], f['ann'], mode, law)
                loads.append((fi, mode, doc, exp))
        if not ctx.begin_case(i):
            continue
        hz = hazards(cm)
        if cat in ('single', 'multi') and hz:
            ctx.count('generator:unexpected-hazard')
        # stdlib law check: strptime(strftime) is the truncation
        for p, V, s in law:
            ctx.count('law:strptime-strftime')
            try:
                got = dt.datetime.strptime(s, p)
            except ValueError:
                got = None
            if got is None or enc_dt(got) != enc_dt(truncate(V, p)):
                ctx.count('law:strptime-strftime:outside')
                ctx.notes.setdefault('law_outside', []).append([p, s])
        cname = model.fresh('P')
        src = render(cm, cname)
        try:
            built = model.Built(T('any'), extra_src=src)
        except Exception as e:
            ctx.count('build_error')
            ctx.notes.setdefault('build_errors', []).append(repr(e)[:300] + ' :: ' + json.dumps(cm)[:300])
            continue
        try:
            Cls = built.get(cname)
            impl_outs, docs_all = [], []
            for fi, mode, doc, exp in loads:
                f = cm['fields'][fi]
                name = f'f{fi}'
                case = {'cm': cm, 'cat': cat, 'field': fi, 'mode': mode, 'doc': doc}
                ctx.seen(f'{cm["engine"]}:{cat}:{mode}', case)
                if f.get('spec', 'plain') != 'plain' or f.get('extra'):
                    ctx.seen(f'{cm["engine"]}:spec:{f.get("spec")}:{"ann" if f["ann"] is not None else "sub-or-plain"}', case)
                out, v, d = eval_impl(Cls, cm['engine'], name, doc, f['ty'])
                impl_outs.append(out)
                docs_all.append(doc)
                if d is not None:
                    docs_all.append(d)
                # ---------------- oracle
                got = out['load']
                if any(kind_ == 'date' and pid_ is not None and cm['pats'][pid_]['tz'] is not None
                       for kind_, _s, pid_, _x in leaves(f['ty'], f['ann'], [])):
                    ctx.count('oracle:skip:zone-on-date-target')     # outside the documented API: correspondence only
                    continue
                if 'ok' in got and key_collision(doc, got['ok']):
                    ctx.count('oracle:skip:dict-keys-load-to-equal-values')
                    continue
                if exp[0] == 'ok':
                    if 'ok' not in got:
                        _fail(ctx, 'oracle:value', case, f'from_dict rejected {doc!r} ({got["err"]}); the property demands {exp[1][0]!r}',
                                 key=attribute(cm, hz, quirks, f, doc, 'value'), detail=dict(src=src))
                    elif got['ok'] not in exp[1]:
                        _fail(ctx, 'oracle:value', case, f'from_dict gave {got["ok"]!r} for {doc!r}; the property demands {exp[1][0]!r}'
                                 + (f' (or {exp[1][1:]!r})' if len(exp[1]) > 1 else ''),
                                 key=attribute(cm, hz, quirks, f, doc, 'value'), detail=dict(src=src))
                elif exp[0] == 'err':
                    if 'ok' in got:
                        _fail(ctx, 'oracle:neither', case, f'from_dict accepted {doc!r} as {got["ok"]!r}; it matches neither ISO-8601 nor a declared pattern',
                                 key=attribute(cm, hz, quirks, f, doc, 'neither'), detail=dict(src=src))
                    elif exp[1] is not None and f['ty']['k'] in ('leaf', 'pat') and got['err'] != ['nomatch', exp[1]]:
                        _fail(ctx, 'oracle:neither', case, f'the error for {doc!r} is {got["err"]!r}; it must name the patterns {exp[1]!r}',
                                 key=attribute(cm, hz, quirks, f, doc, 'neither'), detail=dict(src=src))
                if 'ok' in got and exp[0] != 'err':
                    dmp = out.get('dump')
                    if isinstance(dmp, dict) and 'raised' in dmp:
                        _fail(ctx, 'oracle:dump', case, f'to_dict raised {dmp["raised"]} on the loaded value', detail=dict(src=src))
                    else:
                        if not dumped_leaves_ok(f['ty'], d):
                            _fail(ctx, 'oracle:dump', case, f'the field dumps as {d!r}: not ISO-8601 strings of its type', detail=dict(src=src),
                                     key=attribute(cm, hz, quirks, f, doc, 'dump'))
                        rl = out.get('reload')
                        if rl != got:
                            _fail(ctx, 'oracle:dump-reload', case, f'load(dump(load({doc!r}))) = {rl!r} differs from load = {got!r} (dump {d!r})',
                                     key=attribute(cm, hz, quirks, f, doc, 'reload'), detail=dict(src=src))
                # stdlib law sampled on the loaded value: fromisoformat(isoformat(v)) == v up to the declared zone
                if v is not None and isinstance(v, (dt.date, dt.time)):
                    ctx.count('law:iso-roundtrip')
                    try:
                        s = v.isoformat()
                        w = type(v).fromisoformat(iso_z(s))
                        okk = 'Z' not in s and (w.replace(tzinfo=v.tzinfo) == v if not isinstance(v, dt.date) or isinstance(v, dt.datetime) else w == v)
                    except Exception:
                        okk = False
                    if not okk:
                        ctx.count('law:iso-roundtrip:outside')
            # ---------------- model request
            mtys = [model_ty(f['ty']) for f in cm['fields']]
            if any(t is None for t in mtys):
                ctx.count('model_skipped:union-or-mixed-typeddict')      # outside the model's type universe: oracle only
                continue
            if quirks.get('quote') and quote_hazard(cm):
                ctx.count('model_skipped:known-quote-or-brace-in-pattern')   # the recorded defect has no mode in the model: oracle only
                continue
            req = {'op': 'c17', 'engine': cm['engine'], 'quirks': quirks,
                   'pats': [{'patterns': po['patterns'], 'tz': tz_model(po['tz']),
                             'aware': is_aware(po)} for po in cm['pats']],
                   'fields': [{'ty': t, 'ann': f['ann']} for t, f in zip(mtys, cm['fields'])],
                   'loads': [[fi, model.enc_j(doc)] for fi, _m, doc, _e in loads],
                   'std': std_tables(cm, docs_all)}
            reqs.append(req)
            pend.append((i, cm, cat, loads, impl_outs))
        finally:
            built.close()
    if ctx.model_available and reqs:
        outs = ctx.driver.run(reqs)
        for (i, cm, cat, loads, impl_outs), o in zip(pend, outs):
            ctx.current = i
            if 'r' not in o:
                ctx.agree('model', {'cm': cm}, 'ok', {'driver_error': o.get('err')})
                continue
            for (fi, mode, doc, _e), impl, m in zip(loads, impl_outs, o['r']['outs']):
                case = {'cm': cm, 'cat': cat, 'field': fi, 'mode': mode, 'doc': doc}
                kind = f'model:{cm["engine"]}:{cat}'
                if 'ok' in impl['load'] and key_collision(doc, impl['load']['ok']):
                    ctx.count('skip:dict-keys-load-to-equal-values')      # outside the model (stated in DW/Model/C17.lean)
                    continue
                if m.get('stdmiss'):
                    # a primitive outside the supplied tables influenced the model's outcome: the comparison is void
                    ctx.count('std_miss')
                    ctx.agree(kind, case, impl, {'stdmiss': True})
                    continue
                ctx.agree(kind, case, impl, m)
