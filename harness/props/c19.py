"""C19 — `wiz gen-schema` output imports and loads its source JSON, or fails cleanly.

Correspondence: the real `PyCodeGenerator(...).py_code` (parsed with `ast`, and scanned line by line so that
unparsable output is still compared) against the Lean model `gsInfer`/`gsModule` (driver op "c19").
Oracle: the generated source is imported as a real module, the JSONWizard root class loads the source document,
values have the inferred types, every key has a field; generation twice / after an unrelated document is
identical, and identical across interpreter processes with different hash seeds (`run_hashseed`); the CLI error path is run
as a subprocess on temp files.
"""
from __future__ import annotations

import ast
import dataclasses
import datetime as dt
import importlib.util
import itertools
import json
import keyword
import os
import random
import shutil
import subprocess
import sys
import tempfile
import typing

from harness import common as C
from harness import model as M

FLAGS = [(False, False), (True, False), (False, True), (True, True)]     # (experimental, force_strings)

# ----------------------------------------------------------------------------- document generator

WORDS = ['name', 'user_id', 'userId', 'UserName', 'items', 'created_at', 'values', 'id', 'type', 'addresses',
         'tags', 'count', 'isActive', 'total_price', 'zip-code', 'first name', 'HTTPStatus', 'x', 'y2', 'meta',
         'results', 'children', 'people', 'statuses', 'matrices', 'indices', 'quizzes', 'boxes', 'queries',
         'wolves', 'knives', 'news', 'equipment', 'fish', 'moves', 'men', 'buses', 'shoes', 'mice', 'movies',
         'series', 'analyses', 'bases', 'theses', 'diagnoses', 'reanalyses', 'synopses', 'parentheses', 'octopi',
         'axes', 'oxen', 'heroes', 'lives', 'archives', 'media', 'criteria', 'entry', 'props', 'settings',
         'Order', 'lineItems', 'line_items', 'geo', 'location', 'owner', 'profile', 'details', 'options']
KEYWORDS = ['class', 'from', 'import', 'def', 'in', 'is', 'for', 'global', 'pass', 'None', 'True', 'lambda', 'async']
DIGIT_FIRST = ['1st', '2fa', '123', '9lives', '0']
PUNCT = ['a.b', 'a/b', 'a:b', '$ref', '@id', 'a+b', 'x!', 'per%', "it's", 'q?', '#tag', 'a,b', '(z)', '', ' ', '-', '_']
UNICODE = ['é', 'naïve', '名前', 'Ünï', 'straße', 'ﬁeld', 'ключ', 'Ωmega', 'x²', 'café_au_lait', '٣', 'a b']
CASE_VARIANTS = [['userId', 'user_id', 'UserID', 'User-Id'], ['fooBar', 'foo_bar', 'FooBar', 'foo-bar', 'foo bar'],
                 ['itemList', 'item_list', 'ItemList'], ['aB', 'a_b', 'A_B']]
UNDERSCORE_VARIANTS = [['name', '_name', 'name_', '__name', '_name_'], ['item', '_item', 'item_'], ['kinds', '_kinds', 'kinds_']]
DEFAULT_NAME_CLASH = ['data', 'Data', 'container', 'data1', 'Data2', 'datas', 'list', 'optional', 'union', 'any', 'JSONWizard']

DATE_STRS = ['2021-01-31', '20210131', '2021-W04-2', '0001-01-01', '2024-02-29']
TIME_STRS = ['12:30', '12:30:59', '23:59:59.999999', '08:00:00+02:00', '12:30Z', 'T12:30', '00:00']
DATETIME_STRS = ['2021-01-31T12:30:00', '2021-01-31 12:30:00', '2021-01-31T12:30:00Z', '2021-01-31T12:30:00+05:30',
                 '2021-01-31T12:30', '20210131T123000']
INT_STRS = ['0', '12', '007', '123456789012345678901234567890', '٣', '１２']
FLOAT_STRS = ['1.5', '-3', '+7', '1e5', '.5', '5.', 'nan', 'inf', '-Infinity', '1_000', ' 12 ', '-0.0', '1E-3']
BOOL_STRS = ['true', 'TRUE', 'False', 'yes', 'No', 'on', 'OFF', 't', 'F', 'y', 'N']
ODD_NUMERIC = ['½', '²', '一', '①', '¼3']         # str.isnumeric() but not int()
NEAR_STRS = ['12:3x', '2021-13-01', '2021-01-32', 'tru', 'yess', '1.2.3', '12:', ':', '24:00', '1:2', '--1', 'e5', '',
             ' ', 'None', 'null', 'a:b', '2021-01-31T', '2021-01-31T25:00', 'T', '12:30:61', 'Z', '1,5', '0x10']
PLAIN_STRS = ['hello', 'Hello World', 'a', 'x_y', 'ünï', '漢字', 'line\nbreak', 'quote"s', "it's"]
SCALAR_KINDS = ['int', 'float', 'bool', 'str', 'date', 'time', 'datetime', 'intstr', 'floatstr', 'boolstr', 'near', 'null']


def scalar_of(rng, kind):
    if kind == 'int':
        return rng.choice([0, 1, -1, 7, 42, 10 ** 20, -2 ** 40, rng.randint(-1000, 1000)])
    if kind == 'float':
        return rng.choice([0.5, -1.25, 3.0, 1e10, 2.5e-3, 0.0, 100.125, rng.randint(-999, 999) / 8])
    if kind == 'bool':
        return rng.random() < 0.5
    if kind == 'str':
        return rng.choice(PLAIN_STRS)
    if kind == 'date':
        return rng.choice(DATE_STRS)
    if kind == 'time':
        return rng.choice(TIME_STRS)
    if kind == 'datetime':
        return rng.choice(DATETIME_STRS)
    if kind == 'intstr':
        return rng.choice(INT_STRS)
    if kind == 'floatstr':
        return rng.choice(FLOAT_STRS)
    if kind == 'boolstr':
        return rng.choice(BOOL_STRS)
    if kind == 'near':
        return rng.choice(NEAR_STRS)
    if kind == 'oddnum':
        return rng.choice(ODD_NUMERIC)
    return None


class Prof:
    """what a document is allowed to contain (each unusual shape is a minority choice, so most documents are
    ones the unchanged generator handles)"""

    def __init__(self, rng):
        r = rng.random
        self.bad_keys = r() < 0.10
        self.uni_keys = r() < 0.10
        self.hetero = r() < 0.22           # sibling objects may lack keys
        self.mixed = r() < 0.14            # object / list / scalar mixed at one position
        self.repeat = r() < 0.18           # class-generating key names may repeat at different paths
        self.case_dups = r() < 0.10
        self.underscores = r() < 0.10
        self.clash = r() < 0.06            # keys whose class name collides with Data / Container / typing names
        self.list_in_list = r() < 0.15
        self.oddnum = r() < 0.05
        self.union_scalars = r() < 0.25    # one scalar position takes values of several kinds across siblings
        self.nulls = 0.0 if r() < 0.3 else rng.choice([0.05, 0.15, 0.3])
        self.used = set()

    def flags(self):
        return sorted(k for k, v in self.__dict__.items() if v is True)


def pick_key(rng, prof, used_here, class_generating):
    for _ in range(30):
        r = rng.random()
        if prof.bad_keys and r < 0.25:
            k = rng.choice(rng.choice([KEYWORDS, DIGIT_FIRST, PUNCT]))
        elif prof.uni_keys and r < 0.3:
            k = rng.choice(UNICODE)
        elif prof.case_dups and r < 0.4:
            k = rng.choice(rng.choice(CASE_VARIANTS))
        elif prof.underscores and r < 0.4:
            k = rng.choice(rng.choice(UNDERSCORE_VARIANTS))
        elif prof.clash and r < 0.4:
            k = rng.choice(DEFAULT_NAME_CLASH)
        else:
            k = rng.choice(WORDS)
        if k in used_here:
            continue
        if class_generating and not prof.repeat and k in prof.used:
            continue
        if class_generating:
            prof.used.add(k)
        return k
    return None


def gen_template(rng, prof, depth, top=False):
    """a template: ('s', [kinds]) | ('o', [(key, template)]) | ('l', [templates]) (elements drawn from the list)"""
    r = rng.random()
    if depth <= 0 or (not top and r < 0.45):
        kinds = [rng.choice(SCALAR_KINDS)]
        if prof.oddnum and rng.random() < 0.4:
            kinds = ['oddnum']
        if prof.union_scalars and rng.random() < 0.3:
            kinds.append(rng.choice(SCALAR_KINDS))
        return ('s', kinds)
    if r < 0.75 or top == 'o':
        n = rng.choice([0, 1, 1, 2, 2, 3, 3, 4, 5]) if not top else rng.randint(1, 5)
        fields, used_here = [], set()
        for _ in range(n):
            sub = gen_template(rng, prof, depth - 1)
            k = pick_key(rng, prof, used_here, sub[0] != 's')
            if k is None:
                continue
            used_here.add(k)
            fields.append((k, sub))
        return ('o', fields)
    # list
    alts = []
    r2 = rng.random()
    if r2 < 0.1:
        return ('l', [])
    first = gen_template(rng, prof, depth - 1, top=('o' if rng.random() < 0.6 else False))
    if first[0] == 'l' and not prof.list_in_list:
        first = ('s', [rng.choice(SCALAR_KINDS)])
    alts.append(first)
    if prof.mixed and rng.random() < 0.6:
        other = gen_template(rng, prof, depth - 1)
        if other[0] != 'l' or prof.list_in_list:
            alts.append(other)
    return ('l', alts)


def instantiate(rng, prof, t):
    if t[0] == 's':
        if len(t) == 2 and rng.random() < prof.nulls:
            return None
        return scalar_of(rng, rng.choice(t[1]))
    if t[0] == 'o':
        if rng.random() < prof.nulls * 0.6:
            return None
        out = {}
        for k, sub in t[1]:
            if prof.hetero and rng.random() < 0.3:
                continue
            if prof.mixed and rng.random() < 0.08:
                out[k] = scalar_of(rng, rng.choice(SCALAR_KINDS))
                continue
            out[k] = instantiate(rng, prof, sub)
        return out
    if rng.random() < prof.nulls * 0.4:
        return None
    if not t[1]:
        return []
    n = rng.choice([0, 1, 1, 2, 2, 3, 4])
    return [instantiate(rng, prof, rng.choice(t[1]) if len(t[1]) > 1 else t[1][0]) for _ in range(n)]


def gen_deep(rng, prof):
    """siblings whose lists of objects are merged at two levels, nulls at every level (Optional must survive the
    nested merges)"""
    prof.nulls = rng.choice([0.15, 0.3, 0.45])

    def leaf():
        return ('s', [rng.choice(['int', 'str', 'bool', 'float', 'date', 'intstr'])])

    def obj(depth):
        fields, used = [], set()
        for _ in range(rng.randint(1, 3)):
            r = rng.random()
            if depth > 0 and r < 0.35:
                sub = ('l', [obj(depth - 1)])
            elif depth > 0 and r < 0.55:
                sub = obj(depth - 1)
            elif r < 0.7:
                sub = ('l', [leaf() + ('nonnull',)])
            else:
                sub = leaf()
            k = pick_key(rng, prof, used, sub[0] != 's')
            if k is not None:
                used.add(k)
                fields.append((k, sub))
        return ('o', fields)
    inner = obj(rng.choice([1, 2]))
    k = pick_key(rng, prof, set(), True) or 'rows'
    top = ('o', [(k, ('l', [inner]))] + ([(pick_key(rng, prof, {k}, False) or 'n', leaf())] if rng.random() < 0.5 else []))
    n = rng.randint(2, 4)
    doc = [instantiate(rng, prof, top) for _ in range(n)]
    doc = [d for d in doc if d is not None] or [{}]
    if rng.random() < 0.4:
        doc = {pick_key(rng, prof, set(), True) or 'root': doc}
    return doc


def gen_keyless(rng, prof):
    """DIMENSION several positions of ONE document whose classes have no key to be named after (objects inside lists of lists get
    generated names Data<level>): sibling keys of one object, a key next to a nested object that holds another one, sibling objects
    of a list that each hold some, a root list -- every position with its own object shape, so that two positions which end up
    with one name cannot both load.  The shapes inside are plain (same keys in sibling objects, one kind per key)."""
    prof.nulls = 0.0
    used_fields = set()

    def objs():
        ks = []
        for _ in range(rng.randint(1, 3)):
            k = pick_key(rng, prof, used_fields | set(ks), False)
            if k is not None:
                ks.append(k)
        ks = ks or ['v%d' % len(used_fields)]
        used_fields.update(ks)                       # every position gets its own field names
        kinds = {k: rng.choice(['int', 'str', 'bool', 'float']) for k in ks}
        return [{k: scalar_of(rng, kinds[k]) for k in ks} for _ in range(rng.randint(1, 3))]

    def lol():
        v = objs()
        for _ in range(rng.choice([1, 1, 1, 2])):    # [[...]] mostly, sometimes [[[...]]]
            v = [v]
        return v

    def holder(n):
        """an object with n list-of-lists keys, plain scalar keys in between"""
        out, used = {}, set()
        for _ in range(n):
            if rng.random() < 0.4:
                k = pick_key(rng, prof, used | used_fields, False)
                if k is not None:
                    used.add(k)
                    out[k] = scalar_of(rng, rng.choice(['int', 'str', 'bool']))
            k = pick_key(rng, prof, used | used_fields, True)
            if k is not None:
                used.add(k)
                out[k] = lol()
        used_fields.update(used)
        return out

    layout = rng.choice(['siblings', 'siblings', 'siblings', 'nested-after', 'nested-before', 'in-list', 'root-list', 'bare-root'])
    if layout == 'siblings':
        return holder(rng.choice([2, 2, 3])), layout
    if layout in ('nested-after', 'nested-before'):
        a, b = holder(rng.choice([1, 1, 2])), holder(1)
        k = pick_key(rng, prof, set(a) | used_fields, True) or 'inner_obj'
        doc = dict(a, **{k: b}) if layout == 'nested-after' else dict({k: b}, **a)
        return doc, layout
    if layout == 'in-list':
        k = pick_key(rng, prof, used_fields, True) or 'rows'
        h = holder(2)
        # sibling objects with the same keys: the second repeats the shapes of the first
        return {k: [h, json.loads(json.dumps(h))][:rng.choice([1, 2])]}, layout
    if layout == 'root-list':
        h = holder(rng.choice([2, 3]))
        return [h, json.loads(json.dumps(h))][:rng.choice([1, 2])], layout
    return [lol()[0] for _ in range(rng.choice([1, 2]))], layout


# keys whose humanised singular (the name of the class made for the objects of a list under the key) is EMPTY ('s' -> '': the
# generic `s$` rule strips the whole word), blank ('_s' -> ' '), or degenerate (one letter left over, one-letter keys, plural
# endings on their own, digits only).  The generator has to fall back to its numbered default names for the first two groups.
DEGENERATE_KEYS = {
    'empty': ['s', 'S', '_s', '-s', ' s', '__s', 's', 'S', '_S', '-S', '_', '-', '__'],
    'short': ['es', 'Es', 'ES', 'ies', 'ss', 'SS', 'us', 'ys', 'xes', 'oes', 'ves', 'ses', 'zes', 'ches', 'shes', 's_', 's-s', 'ees'],
    'letter': list('abcdefghjkmnpqrtuvwxyz') + list('ABDEKMNPQRTXZ'),
    'digits': ['0', '7', '42', '007', '3s', '0s', '1_0'],
}
PLAIN_FIELDS = ['name', 'id', 'count', 'total', 'label', 'flag', 'kind', 'score', 'a', 'b', 'k', 'n', 'p', 'v', 'w', 'x']


def gen_degenerate(rng, prof):
    """DIMENSION class-generating positions whose key gives an empty / blank / one-letter / digits-only name: such keys holding
    lists of objects, lists of lists (of objects, of scalars), plain objects and lists of scalars; at the root object, below another
    key, in the sibling objects of a list (merged), nested inside each other (the numbered default names Data<level> then have to
    stay distinct from each other and from the key-named classes).  Sibling objects have the same keys and one kind per key, so the
    only unusual thing about the document is the key."""
    prof.nulls = 0.0
    weights = rng.choice([('empty',) * 6 + ('short',) * 2 + ('letter',) * 2 + ('digits',),
                          ('empty',) * 3 + ('short',) * 3 + ('letter',) * 3,
                          ('empty',) * 8 + ('digits',)])

    def dkey(used_snakes):
        for _ in range(20):
            k = rng.choice(DEGENERATE_KEYS[rng.choice(weights)])
            if _snake(k) not in used_snakes:
                return k
        return None

    def leaf():
        return ('s', [rng.choice(['int', 'str', 'bool', 'float'])])

    def obj(depth, want=0):
        fields, used = [], set()
        for _ in range(rng.randint(1, 3)):
            k = rng.choice(PLAIN_FIELDS)
            if _snake(k) not in used:
                used.add(_snake(k))
                fields.append((k, leaf()))
        n_deg = want or (rng.choice([0, 1, 1, 2]) if depth > 0 else 0)
        for _ in range(n_deg):
            k = dkey(used)
            if k is not None:
                used.add(_snake(k))
                fields.insert(rng.randint(0, len(fields)), (k, value(depth - 1)))
        return ('o', fields)

    def value(depth):
        shape = rng.choice(['lo', 'lo', 'lo', 'lo', 'll', 'll', 'o', 'o', 'ls', 'lls'])
        if shape == 'lo':
            return ('l', [obj(depth)])
        if shape == 'll':
            # ONE inner list (as in gen_keyless): several inner lists of objects at one position are the recorded shapes
            # gs-union-with-list / gs-duplicate-class-name (every inner list makes its own Data<level> classes)
            inner = ('l', [obj(depth)])
            return ('l', [inner if rng.random() < 0.8 else ('l', [inner], 1)], 1)
        if shape == 'o':
            return obj(depth)
        if shape == 'ls':
            return ('l', [leaf()])
        return ('l', [('l', [leaf()])])

    def inst(t):
        if t[0] == 's':
            return scalar_of(rng, t[1][0])
        if t[0] == 'o':
            return {k: inst(sub) for k, sub in t[1]}
        return [inst(t[1][0]) for _ in range(t[2] if len(t) > 2 else rng.choice([1, 1, 2, 2, 3]))]

    layout = rng.choice(['root-object', 'root-object', 'root-object', 'root-array', 'root-array', 'below-key', 'in-list'])
    top = obj(rng.choice([1, 1, 2]), want=rng.choice([1, 1, 2, 3]))
    if layout == 'root-object':
        return inst(top), layout
    if layout == 'root-array':
        return [inst(top) for _ in range(rng.randint(1, 3))], layout
    k = pick_key(rng, prof, set(), True) or 'holder'
    if layout == 'below-key':
        return {k: inst(top), 'n': scalar_of(rng, 'int')}, layout
    return {k: [inst(top) for _ in range(rng.randint(1, 3))]}, layout


# ----------------------------------------------------------------------------- documents for the cross-process comparison

NATIVE_KINDS = ['int', 'float', 'bool', 'str', 'null']
STRING_KINDS = ['date', 'time', 'datetime', 'intstr', 'floatstr', 'boolstr']


def gen_manytypes(rng, prof):
    """DIMENSION positions that collect SEVERAL scalar types, and collect them in different ways: one list holding values of many
    types (at several depths); the lists the same key takes in sibling objects, where a later sibling's list brings in two or more
    types the merged list did not have yet (one merge step adds several members at once), also two levels down and inside lists of
    lists; one scalar key taking several types across siblings.  The order of the members of the resulting Union is part of the
    generated text: these documents are the core of the sample that is generated in several interpreter processes with different
    hash seeds (`run_hashseed`) and compared byte for byte; they go through the ordinary oracle / model correspondence as well."""
    prof.nulls = 0.0
    kinds_pool = NATIVE_KINDS + (STRING_KINDS + ['str'] * 3 if rng.random() < 0.25 else [])

    def values(kinds):
        vals = [scalar_of(rng, k) for k in kinds for _ in range(rng.choice([1, 1, 2]))]
        if rng.random() < 0.7:
            rng.shuffle(vals)
        return vals

    def sibling_lists(n):
        """the lists one key takes in n sibling objects: the first has 0-2 kinds, every later one 2-4 kinds, mostly new ones"""
        pool = list(kinds_pool)
        rng.shuffle(pool)
        first = [pool.pop() for _ in range(rng.choice([0, 0, 1, 1, 2]))]
        out, seen = [values(first)], list(first)
        for _ in range(n - 1):
            new = [pool.pop() for _ in range(min(len(pool), rng.choice([2, 2, 3, 4])))]
            old = rng.sample(seen, min(len(seen), rng.choice([0, 1]))) if seen else []
            out.append(values(new + old))
            seen += new
        return out

    def key(used):
        k = pick_key(rng, prof, used, True) or 'vals%d' % len(used)
        used.add(k)
        return k

    def siblings(n, depth):
        used = set()
        ks = [key(used) for _ in range(rng.choice([1, 1, 2]))]
        cols = {k: sibling_lists(n) for k in ks}
        idk = pick_key(rng, prof, used, False) if rng.random() < 0.6 else None
        sk = pick_key(rng, prof, used | {idk}, False) if rng.random() < 0.4 else None
        sk_kinds = rng.sample(NATIVE_KINDS[:4], rng.choice([2, 3, 4]))
        deep = key(used) if depth > 0 and rng.random() < 0.6 else None
        deep_rows = [siblings(rng.randint(1, 2), depth - 1) for _ in range(n)] if deep else None
        rows = []
        for i in range(n):
            o = {}
            if idk:
                o[idk] = i + 1
            for k in ks:
                o[k] = cols[k][i]
            if sk:
                o[sk] = scalar_of(rng, sk_kinds[i % len(sk_kinds)])
            if deep:
                o[deep] = deep_rows[i]
            rows.append(o)
        return rows

    def mixed_nest(depth):
        used = set()
        o = {key(used): values(rng.sample(kinds_pool, rng.choice([2, 3, 4])))}
        if depth > 0:
            if rng.random() < 0.7:
                o[key(used)] = mixed_nest(depth - 1)
            if rng.random() < 0.4:
                o[key(used)] = [mixed_nest(depth - 1)]
        return o

    layout = rng.choice(['root-array', 'root-array', 'below-key', 'below-key', 'two-levels', 'two-levels', 'mixed-at-depths',
                         'list-of-lists'])
    n = rng.choice([2, 2, 3, 3, 4])
    if layout == 'root-array':
        return siblings(n, 0), layout
    if layout == 'below-key':
        used = set()
        doc = {key(used): siblings(n, 0)}
        if rng.random() < 0.4:
            doc[key(used)] = values(rng.sample(kinds_pool, rng.choice([2, 3])))
        return doc, layout
    if layout == 'two-levels':
        rows = siblings(n, 1)
        return (rows if rng.random() < 0.5 else {key(set()): rows}), layout
    if layout == 'mixed-at-depths':
        return mixed_nest(rng.choice([1, 2, 3])), layout
    return {key(set()): sibling_lists(n)}, layout            # the lists are the elements of one list


PLAIN_PROFILE_OFF = ('bad_keys', 'uni_keys', 'hetero', 'mixed', 'case_dups', 'underscores', 'clash', 'oddnum', 'repeat', 'union_scalars',
                     'list_in_list')


def gen_family_doc(rng, family):
    prof = Prof(rng)
    for a in PLAIN_PROFILE_OFF:
        setattr(prof, a, False)
    if family != 'degenerate-name':
        doc, layout = gen_manytypes(rng, prof)
        return doc, [family, layout]
    # Two positions that the reference naming gives ONE class name (two key-less / empty-name lists reaching the same Data<level>
    # on different branches, a one-letter key repeated at two paths) are the recorded shape gs-duplicate-class-name
    # (findings/gs-duplicate-class-name.py): kept out of this family, whose point is the name of each single position.
    for _ in range(40):
        prof.used = set()
        doc, layout = gen_degenerate(rng, prof)
        if max(ref_class_names(doc).values()) < 2:
            break
    else:
        doc, layout = {rng.choice(DEGENERATE_KEYS['empty']): [{'a': scalar_of(rng, 'int')}], 'n': 1}, 'fallback'
    return doc, [family, layout]


def gen_doc(rng):
    prof = Prof(rng)
    r0 = rng.random()
    if r0 < 0.1:
        for a in ('bad_keys', 'uni_keys', 'hetero', 'mixed', 'case_dups', 'underscores', 'clash', 'oddnum'):
            setattr(prof, a, False)
        doc = gen_deep(rng, prof)
        return doc, ['deep'] + prof.flags()
    if r0 < 0.2:
        for a in ('bad_keys', 'uni_keys', 'hetero', 'mixed', 'case_dups', 'underscores', 'clash', 'oddnum', 'repeat', 'union_scalars'):
            setattr(prof, a, False)
        doc, layout = gen_keyless(rng, prof)
        return doc, ['keyless', layout]
    depth = rng.choice([1, 2, 2, 3, 3, 4])
    if rng.random() < 0.6:
        t = gen_template(rng, prof, depth, top='o')
        doc = instantiate(rng, prof, t)
        if doc is None:
            doc = {}
    else:
        t = gen_template(rng, prof, depth - 1, top='o')
        alts = [t]
        if prof.mixed:
            alts.append(gen_template(rng, prof, depth - 1))
        n = rng.choice([0, 1, 2, 2, 3, 4])
        doc = [instantiate(rng, prof, rng.choice(alts)) for _ in range(n)]
    return doc, prof.flags()


# ----------------------------------------------------------------------------- running the real generator

def generate(doc_text, experimental, force_strings):
    from dataclass_wizard.wizard_cli.schema import PyCodeGenerator
    return PyCodeGenerator(file_contents=doc_text, experimental=experimental, force_strings=force_strings).py_code


class TempModules:
    """generated sources are written to files in one temp dir and imported as real modules"""

    def __init__(self):
        self.dir = tempfile.mkdtemp(prefix='c19_')
        self.n = 0
        self.loaded = []

    def load(self, src):
        self.n += 1
        name = f'c19_gs_{os.getpid()}_{self.n}'
        path = os.path.join(self.dir, name + '.py')
        with open(path, 'w', encoding='utf-8') as f:
            f.write(src)
        spec = importlib.util.spec_from_file_location(name, path)
        mod = importlib.util.module_from_spec(spec)
        sys.modules[name] = mod
        self.loaded.append(name)
        try:
            spec.loader.exec_module(mod)
        except BaseException:
            sys.modules.pop(name, None)
            raise
        return mod

    def close(self):
        for n in self.loaded:
            sys.modules.pop(n, None)
        shutil.rmtree(self.dir, ignore_errors=True)


def root_class(mod):
    from dataclass_wizard import JSONWizard
    roots = [v for v in vars(mod).values()
             if isinstance(v, type) and v.__module__ == mod.__name__ and JSONWizard in v.__mro__]
    return roots


def type_ok(v, tp, mod):
    """does the loaded value `v` have the (resolved) annotation `tp`"""
    if tp is typing.Any:
        return True
    if tp is None or tp is type(None):
        return v is None
    origin = typing.get_origin(tp)
    if origin is typing.Union or (hasattr(__import__('types'), 'UnionType') and isinstance(tp, __import__('types').UnionType)):
        return any(type_ok(v, a, mod) for a in typing.get_args(tp))
    if origin in (list, typing.List):
        args = typing.get_args(tp)
        if not isinstance(v, list):
            return False
        return all(type_ok(x, args[0], mod) for x in v) if args else True
    if tp in (list, typing.List):
        return isinstance(v, list)
    if isinstance(tp, str):
        tp = getattr(mod, tp, None)
    if isinstance(tp, typing.ForwardRef):
        tp = getattr(mod, tp.__forward_arg__, None)
    if dataclasses.is_dataclass(tp):
        if type(v) is not tp:
            return False
        hints = typing.get_type_hints(tp, vars(mod))
        return all(type_ok(getattr(v, f.name), hints[f.name], mod) for f in dataclasses.fields(tp))
    if tp is float:
        return type(v) is float
    if tp is int:
        return type(v) is int
    if tp is dt.date:
        return type(v) is dt.date
    if isinstance(tp, type):
        return type(v) is tp
    return False


def keys_have_fields(docv, v, path, missing):
    """every key of every object of the document has a field in the instance loaded at the same path"""
    from dataclass_wizard.utils.string_conv import to_snake_case
    if isinstance(docv, dict):
        if not dataclasses.is_dataclass(v):
            missing.append((path, '<no class instance here>'))
            return
        names = {f.name for f in dataclasses.fields(v)}
        snakes = [to_snake_case(k) for k in docv]
        for k, x in docv.items():
            f = to_snake_case(k)
            if f not in names:
                missing.append((path, k))
            elif snakes.count(f) == 1:      # several keys of one object sharing a field: the field holds the last value
                keys_have_fields(x, getattr(v, f), path + [k], missing)
    elif isinstance(docv, list):
        if isinstance(v, list) and len(v) == len(docv):
            for i, (a, b) in enumerate(zip(docv, v)):
                keys_have_fields(a, b, path + [i], missing)
        elif any(isinstance(a, (dict, list)) for a in docv):
            missing.append((path, '<list not loaded elementwise>'))


# ----------------------------------------------------------------------------- output scanners

def scan_lines(src):
    """line-level structure of the generated text (works for unparsable output too):
    imports [(module, [names])], classes [(name, is_root, [(field, annotation text)])]"""
    imports, classes = [], []
    cur = None
    in_doc = False
    for line in src.split('\n'):
        if in_doc:
            if line.strip() == '"""':
                in_doc = False
            continue
        if line.startswith('from ') and ' import ' in line and cur is None:
            mod_, names = line[5:].split(' import ', 1)
            imports.append([mod_, names.split(', ')])
        elif line.startswith('class ') and line.endswith(':'):
            head = line[6:-1]
            is_root = head.endswith('(JSONWizard)')
            if is_root:
                head = head[:-len('(JSONWizard)')]
            cur = [head, is_root, []]
            classes.append(cur)
        elif line.strip() == '"""' and cur is not None:
            in_doc = True
        elif line.startswith('    ') and cur is not None and line.strip() != 'pass' and ': ' in line:
            f, a = line[4:].split(': ', 1)
            cur[2].append([f, a])
    return {'imports': imports, 'classes': classes}


def ann_tree(node):
    """canonical JSON form of an annotation expression"""
    if isinstance(node, ast.Constant):
        if node.value is None:
            return ['none']
        if isinstance(node.value, str):
            return ['ref', node.value]
        return ['const', repr(node.value)]
    if isinstance(node, ast.Name):
        return ['name', node.id]
    if isinstance(node, ast.Subscript):
        sl = node.slice
        args = [ann_tree(e) for e in sl.elts] if isinstance(sl, ast.Tuple) else [ann_tree(sl)]
        return ['sub', ann_tree(node.value), args]
    if isinstance(node, ast.BinOp) and isinstance(node.op, ast.BitOr):
        def flat(n):
            if isinstance(n, ast.BinOp) and isinstance(n.op, ast.BitOr):
                return flat(n.left) + flat(n.right)
            return [ann_tree(n)]
        return ['or', flat(node)]
    return ['other', ast.dump(node)]


def scan_ast(src):
    tree = ast.parse(src)
    imports, classes = [], []
    for st in tree.body:
        if isinstance(st, ast.ImportFrom):
            imports.append([st.module, [a.name for a in st.names]])
        elif isinstance(st, ast.ClassDef):
            fields = []
            for b in st.body:
                if isinstance(b, ast.AnnAssign) and isinstance(b.target, ast.Name):
                    fields.append([b.target.id, ann_tree(b.annotation)])
            bases = [ann_tree(b) for b in st.bases]
            decos = [ann_tree(d) for d in st.decorator_list]
            classes.append([st.name, bases == [['name', 'JSONWizard']], fields, decos == [['name', 'dataclass']]])
    return {'imports': imports, 'classes': classes}


def names_diag(scan):
    """why the generated module cannot be well scoped, read off its line structure"""
    names = [c[0] for c in scan['classes']]
    dup = sorted({n for n in names if names.count(n) > 1})
    bad_cls = sorted({n for n in names if not ident_ok(n)})
    bad_fld = sorted({f for c in scan['classes'] for f, _a in c[2] if not ident_ok(f)})
    imported = {n for _m, ns in scan['imports'] for n in ns} | {'int', 'str', 'float', 'bool', 'list', 'None'}
    shadow = sorted({n for n in names if n in imported})
    return dict(dup_class=dup, bad_class=bad_cls, bad_field=bad_fld, shadow=shadow)


def ident_ok(s):
    return s.isidentifier() and not keyword.iskeyword(s) and s.isascii() or \
        (s.isidentifier() and not keyword.iskeyword(s) and _nfkc_stable(s))


def _nfkc_stable(s):
    import unicodedata
    return unicodedata.normalize('NFKC', s) == s


# ----------------------------------------------------------------------------- document shapes (attribution)

def walk_objects(v, path=()):
    if isinstance(v, dict):
        yield path, v
        for k, x in v.items():
            yield from walk_objects(x, path + (k,))
    elif isinstance(v, list):
        for i, x in enumerate(v):
            yield from walk_objects(x, path + (i,))


def _snake(k):
    from dataclass_wizard.utils.string_conv import to_snake_case
    return to_snake_case(k)


def _pascal(k):
    from dataclass_wizard.utils.string_conv import to_pascal_case
    return to_pascal_case(k)


def key_shapes(doc):
    """keys of the document whose derived field name (to_snake_case) / class name (to_pascal_case, only when the value
    makes a class) is not a Python identifier, or is one that the parser rewrites (NFKC)"""
    bad, nfkc = set(), set()
    for _p, o in walk_objects(doc):
        for k, v in o.items():
            f = _snake(k)
            if not f.isidentifier() or keyword.iskeyword(f):
                bad.add(k)
            elif not _nfkc_stable(f):
                nfkc.add(k)
            if isinstance(v, dict):
                c = _pascal(k)
                if not c.isidentifier() or keyword.iskeyword(c):
                    bad.add(k)
            elif isinstance(v, list) and any(isinstance(e, dict) for e in v):
                # class name of a list's model: humanize + singularize; judged here without calling the inflector
                c = ''.join(w.title() for w in f.split('_'))
                if not c.isidentifier() or keyword.iskeyword(c) or keyword.iskeyword(c[:-1]):
                    bad.add(k)
    return bad, nfkc


def string_shapes(doc, force_strings):
    out = set()
    if force_strings:
        for s in doc_strings(doc, set()):
            if ':' not in s and s.isnumeric():
                try:
                    int(s)
                except ValueError:
                    out.add('numeric-not-int')
    return out


def group_shapes(doc):
    """facts about the merged sibling groups (the elements of one list, and recursively the values one key takes across
    a group): 'missing-key' a key is absent from a sibling object; 'mixed-object' the non-null values at one position are
    objects and something else; 'mixed-list' lists and something else; 'snake-collision' two keys of one object share a
    field name; 'null-in-later-list' a list merged into an earlier sibling list holds a null that the first one lacks
    (or lists nested in lists are merged)"""
    found = set()

    def kind(v):
        return 'o' if isinstance(v, dict) else 'l' if isinstance(v, list) else 'n' if v is None else 's'

    def group(vals):
        kinds = {kind(v) for v in vals} - {'n'}
        if len(kinds) > 1 and 'o' in kinds:
            found.add('mixed-object')
        if len(kinds) > 1 and 'l' in kinds:
            found.add('mixed-list')
        objs = [v for v in vals if isinstance(v, dict)]
        lists = [v for v in vals if isinstance(v, list)]
        if objs:
            fields = []
            for o in objs:
                seen = set()
                for k in o:
                    f = _snake(k)
                    if f in seen:
                        found.add('snake-collision')
                    seen.add(f)
                    if f not in fields:
                        fields.append(f)
            for f in fields:
                if any(all(_snake(k) != f for k in o) for o in objs):
                    found.add('missing-key')
                group([v for o in objs for k, v in o.items() if _snake(k) == f])
        if lists:
            if len(lists) > 1 and None not in lists[0] and any(None in l for l in lists[1:]):
                found.add('null-in-later-list')
            elems = [e for l in lists for e in l]
            if any(isinstance(e, list) for e in elems):
                found.add('list-in-list')
                if len(lists) > 1 or sum(isinstance(e, list) for e in elems) > 1:
                    if any(None in e for e in elems if isinstance(e, list)):
                        found.add('null-in-later-list')
            group(elems)
    group([doc])
    return found


def all_shapes(doc, force_strings):
    bad, nfkc = key_shapes(doc)
    sh = group_shapes(doc) | string_shapes(doc, force_strings)
    if bad:
        sh.add('key-not-identifier')
    if nfkc:
        sh.add('key-not-nfkc')
    return sh, bad, nfkc


# ----------------------------------------------------------------------------- attribution to known-finding classes

def ref_pascal(s):
    """reference transcription of `to_pascal_case` as it stands in the unchanged tree (underscores at the ends survive)"""
    import re
    s = s.replace('-', '_').replace(' ', '_')
    while '__' in s:
        s = s.replace('__', '_')
    if not s:
        return s
    return s[0].upper() + re.sub(r'(?:_)(.)', lambda m: m.group(1).upper(), s[1:])


_REAL_SINGULARIZE = [None]


def ref_class_names(doc):
    """class name -> number of distinct class-generating positions of the document that the reference naming gives that name
    (incl. the implicit Data / Container / Data<level> names).  Reference transcription of the naming as it stands in the
    unchanged tree: an object under key k is named after k; a list under key k after the singular of k; a list without a key
    (a list inside a list, an empty key) is named Data<level>, where the level is a counter that every list-valued key of one
    object and every list element of one list increments *for what follows at that nesting* and that is handed down, never
    back up.  Sibling objects of one list are merged into one class: positions are told apart by their path without the
    indices of object elements."""
    from dataclass_wizard.wizard_cli import schema
    sing = _REAL_SINGULARIZE[0] or schema.English.singularize
    where = {}
    # the merge of sibling objects into one class is defeated where one position holds objects next to other kinds or two keys
    # share a field name (gs-union-with-class / -list shapes): every occurrence may then surface as a class of its own
    merged = not (group_shapes(doc) & {'mixed-object', 'mixed-list', 'snake-collision'})
    occ = itertools.count()

    def add(n, path):
        where.setdefault(n, set()).add(path if merged else (path, next(occ)))

    def walk_obj(v, lvl, path):
        for k, x in v.items():
            if isinstance(x, dict):
                add(ref_pascal(k), path + (k,))
                walk_obj(x, lvl, path + (k,))
            elif isinstance(x, list):
                lvl += 1
                nm = ref_pascal(sing(schema.English.humanize(k)).replace(' ', '')) if k else ''
                walk_list(x, nm or None, lvl, path + (k,))

    def walk_list(xs, nm, lvl, path):
        if not nm:
            nm = f'Data{lvl}' if lvl else 'Data'
        if any(isinstance(e, dict) for e in xs):
            add(nm, path + ('[]',))
        for j, e in enumerate(xs):
            if isinstance(e, dict):
                walk_obj(e, lvl, path + ('[]',))
            elif isinstance(e, list):
                lvl += 1
                walk_list(e, None, lvl, path + (j,))
    if isinstance(doc, dict):
        add('Data', ())
        walk_obj(doc, 0, ())
    else:
        add('Container', ())
        walk_list(doc, 'Data', 0, ())
    return {n: len(ps) for n, ps in where.items()}


def dup_explained(doc, dup_names):
    """every duplicated class name of the output is one the reference naming also gives to several positions of the
    document (the same key at different paths, singular/plural or case variants of one name, a key named like the
    implicit Data / Container / Data<level> classes, two key-less lists that reach the same level on different branches)"""
    counts = ref_class_names(doc)
    return all(counts.get(n, 0) >= 2 for n in dup_names)


def union_nodes(tree, out):
    """members of every Union[...] / X | Y node of an annotation tree"""
    if not isinstance(tree, list) or not tree:
        return out
    if tree[0] == 'sub':
        if tree[1] == ['name', 'Union']:
            out.append(tree[2])
        elif tree[1] == ['name', 'Optional'] and tree[2] and tree[2][0][0] != 'sub':
            pass
        for a in tree[2]:
            union_nodes(a, out)
    elif tree[0] == 'or':
        out.append([m for m in tree[1] if m != ['none']])
        for a in tree[1]:
            union_nodes(a, out)
    return out


def has_union_with_list(src):
    """some annotation of the module is a Union one of whose members is a List"""
    try:
        a = scan_ast(src)
    except SyntaxError:
        return False
    for c in a['classes']:
        for _f, t in c[2]:
            for members in union_nodes(t, []):
                for m in members:
                    if m in (['name', 'List'], ['name', 'list']) or (m[0] == 'sub' and m[1] in (['name', 'List'], ['name', 'list'])):
                        return True
    return False


def field_annotation(src, class_name, field_name):
    try:
        a = scan_ast(src)
    except SyntaxError:
        return None, set()
    names = {c[0] for c in a['classes']}
    for c in a['classes']:
        if c[0] == class_name:
            for f, t in c[2]:
                if f == field_name:
                    return t, names
    return None, names


LISTY = {'mixed-list', 'list-in-list', 'snake-collision'}     # shapes that put a List next to other members of a Union


def attribute(kind, exc, doc, src, diag, shapes, bad_keys, nfkc_keys, offending=None):
    """known-finding key for a failure, or None.  A key is given only when the document has the finding's shape AND the
    symptom is the one that shape produces."""
    msg = str(exc) if exc is not None else ''
    name = type(exc).__name__ if exc is not None else ''
    bad_names = {_snake(k) for k in bad_keys} | {_pascal(k) for k in bad_keys}
    if kind in ('gen:syntax',):
        return 'gs-key-not-identifier' if bad_keys and (diag['bad_field'] or diag['bad_class']) else None
    if diag['dup_class']:
        return 'gs-duplicate-class-name' if dup_explained(doc, diag['dup_class']) else None
    if diag['shadow']:
        return 'gs-class-shadows-import'
    if kind == 'gen:import':
        return 'gs-key-not-identifier' if bad_keys and (diag['bad_field'] or diag['bad_class']) else None
    if kind == 'gen:fields':
        keys = {k for _p, k in (offending or [])}
        if keys and keys <= set(bad_keys):
            return 'gs-key-not-identifier'
        if keys and keys <= set(nfkc_keys):
            return 'gs-key-nfkc-normalised'
        if offending and has_union_with_list(src) and all(k == '<no class instance here>' for _p, k in offending):
            # Union[List, List['X']]: the loader commits to the first (bare) List member and leaves the objects raw
            return 'gs-union-with-list'
        return None
    if kind == 'gen:load':
        if name == 'MissingFields':
            missing = set(getattr(exc, 'missing_fields', None) or [])
            import unicodedata
            if nfkc_keys and missing & {unicodedata.normalize('NFKC', _snake(k)) for k in nfkc_keys}:
                return 'gs-key-nfkc-normalised'
            if bad_keys:
                return 'gs-key-not-identifier'
            if not isinstance(getattr(exc, 'obj', {}), dict) and shapes & LISTY and has_union_with_list(src):
                return 'gs-union-with-list'
            if 'missing-key' in shapes:
                return 'gs-missing-key-required'
            return None
        if bad_keys and name in ('UnknownJSONKey', 'UnknownKeysError', 'AttributeError', 'NameError'):
            return 'gs-key-not-identifier'
        cls_name, fld = getattr(exc, 'class_name', None), getattr(exc, 'field_name', None)
        if 'not in any of Union types' in msg and cls_name and fld:
            if getattr(exc, 'obj', 0) is None and 'null-in-later-list' in shapes and not has_union_with_list(src):
                return 'gs-null-list-element-merge'         # (repaired by c45a418: reported if it returns)
            tree, class_names = field_annotation(src, cls_name, fld)
            for members in union_nodes(tree, []):
                if any(m[0] == 'ref' or (m[0] == 'name' and m[1] in class_names) for m in members):
                    if 'mixed-object' in shapes or 'snake-collision' in shapes:
                        return 'gs-union-with-class'
            for members in union_nodes(tree, []):
                if len(members) > 1 and ['name', 'str'] not in members and isinstance(getattr(exc, 'obj', None), str):
                    return 'gs-union-of-converted-strings'
            if shapes & LISTY and has_union_with_list(src):
                return 'gs-union-with-list'
            return None
        if 'numeric-not-int' in shapes and 'invalid literal for int()' in msg:
            return 'gs-force-strings-isnumeric'
        if shapes & LISTY and has_union_with_list(src) and \
                name in ('ParseError', 'ValueError', 'TypeError', 'AttributeError', 'MissingData'):
            # (since repair c45a418 List[T] and List[Optional[T]] are different members of such a Union)
            return 'gs-union-with-list'
        if 'null-in-later-list' in shapes and (name == 'MissingData' or 'NoneType' in msg or 'value=None' in msg):
            return 'gs-null-list-element-merge'         # (repaired by c45a418: reported if it returns)
    return None


def _fail(ctx, kind, case, what, key=None, detail=None):
    """ctx.fail, keeping at most three recorded instances of one attributed class (the rest are counted), so that
    the bounded failure list stays available for unattributed failures"""
    if key is not None:
        ctx.count('attributed:' + key)
        if ctx.kind_counts['attributed:' + key] > 3:
            return
    ctx.fail(kind, case, what, key=key, detail=detail)


# ----------------------------------------------------------------------------- the oracle for one (doc, flags)

def oracle(ctx, tm, case, doc, doc_text, experimental, force_strings):
    """The property stated on the implementation.  Returns the generated source (None when generation raised)."""
    try:
        src = generate(doc_text, experimental, force_strings)
    except Exception as e:
        _fail(ctx, 'gen', case, f'generator raised {type(e).__name__}: {e}'[:300])
        return None
    try:
        src2 = generate(doc_text, experimental, force_strings)
    except Exception as e:
        src2 = f'<raised {e!r}>'
    if src2 != src:
        _fail(ctx, 'gen:deterministic', case, 'two generations of the same document in one process differ',
              detail=dict(first=src[:2000], second=src2[:2000]))
    shapes, bad_keys, nfkc_keys = all_shapes(doc, force_strings)
    scan = scan_lines(src)
    diag = names_diag(scan)
    det = dict(src=src[:3000], diag=diag, shapes=sorted(shapes))

    def att(kind, exc=None, offending=None):
        return attribute(kind, exc, doc, src, diag, shapes, bad_keys, nfkc_keys, offending)
    # ---- valid Python that imports
    try:
        compile(src, '<generated>', 'exec')
    except SyntaxError as e:
        _fail(ctx, 'gen:syntax', case, f'generated source is not valid Python: {e.msg} (line {e.lineno}: '
              f'{(e.text or "").strip()[:80]!r})', key=att('gen:syntax'), detail=det)
        return src
    try:
        mod = tm.load(src)
    except BaseException as e:
        _fail(ctx, 'gen:import', case, f'importing the generated module raised {type(e).__name__}: {e}'[:300],
              key=att('gen:import', e), detail=det)
        return src
    roots = root_class(mod)
    elems = [doc] if isinstance(doc, dict) else [e for e in doc if isinstance(e, dict)]
    if not roots:
        if elems:
            _fail(ctx, 'gen:root', case, 'no JSONWizard root class in the generated module', key=att('gen:root'), detail=det)
        return src
    root = roots[0]
    for idx, el in enumerate(elems):
        try:
            inst = root.from_dict(json.loads(json.dumps(el)))
        except Exception as e:
            _fail(ctx, 'gen:load', case, f'{root.__name__}.from_dict(source element {idx}) raised {type(e).__name__}: '
                  + str(e).replace('\n', ' ')[:260], key=att('gen:load', e), detail=dict(det, element=el))
            continue
        try:
            ok = type_ok(inst, root, mod)
        except Exception as e:
            ok = False
            ctx.notes.setdefault('type_ok_errors', []).append(repr(e)[:200])
        if not ok:
            _fail(ctx, 'gen:types', case, f'loaded values do not have the inferred types: {inst!r}'[:400],
                  key=att('gen:types'), detail=dict(det, element=el))
        missing = []
        keys_have_fields(el, inst, [], missing)
        if missing:
            _fail(ctx, 'gen:fields', case, f'keys without a field in the loaded classes: {missing[:4]!r}',
                  key=att('gen:fields', None, missing), detail=dict(det, element=el))
    return src


# ----------------------------------------------------------------------------- model side

class SingRecorder:
    """wraps the real `English.singularize` so that the calls the generator makes (in its order) become the
    model's table; also remembers every (word -> result) of the whole run: a word that ever gets two different
    results shows that the function depends on history"""

    def __init__(self):
        from dataclass_wizard.wizard_cli import schema
        self.schema = schema
        self.orig = schema.English.__dict__['singularize']
        self.real = schema.English.singularize
        _REAL_SINGULARIZE[0] = self.real
        self.calls = []
        self.ever = {}
        self.conflicts = []

    def install(self):
        rec = self

        def singularize(word):
            r = rec.real(word)
            rec.calls.append((word, r))
            return r
        self.schema.English.singularize = staticmethod(singularize)

    def uninstall(self):
        self.schema.English.singularize = self.orig

    def take(self):
        calls, self.calls = self.calls, []
        for w, r in calls:
            if w in self.ever and self.ever[w] != r:
                self.conflicts.append((w, self.ever[w], r))
            self.ever.setdefault(w, r)
        return calls


def doc_strings(v, out):
    if isinstance(v, str):
        out.add(v)
    elif isinstance(v, dict):
        for x in v.values():
            doc_strings(x, out)
    elif isinstance(v, list):
        for x in v:
            doc_strings(x, out)
    return out


def _ok(f, *a):
    try:
        f(*a)
        return True
    except (TypeError, ValueError):
        return False


def std_tables(doc, sing_calls):
    """the stdlib answers the model needs, computed with the stdlib itself; `singularize` from the recorded calls"""
    S = sorted(doc_strings(doc, set()))
    z = lambda s: s.replace('Z', '+00:00', 1)
    sing = {}
    for w, r in sing_calls:
        sing.setdefault(w, r)
    return {
        'known': S,
        'date': [s for s in S if _ok(dt.date.fromisoformat, s)],
        'time': [s for s in S if _ok(dt.time.fromisoformat, z(s))],
        'datetime': [s for s in S if _ok(dt.datetime.fromisoformat, z(s))],
        'numeric': [s for s in S if s.isdecimal()],
        'float': [s for s in S if _ok(float, s)],
        'lower': [[s, s.lower()] for s in S],
        'singularize': [[w, r] for w, r in sing.items()],
    }


def keys_model_domain(doc):
    """the string model (DW/Model/Strings.lean) is ASCII-cased: keys with cased non-ASCII letters are outside it"""
    for _p, o in walk_objects(doc):
        for k in o:
            for c in k:
                if ord(c) > 127 and (c.lower() != c or c.upper() != c):
                    return False
    return True


RESERVED = {'annotations', 'dataclass', 'date', 'datetime', 'time', 'Any', 'List', 'Optional', 'Union', 'JSONWizard',
            'int', 'str', 'float', 'bool', 'list'}


def _plain_ident(s):
    return s.isascii() and s.isidentifier() and not keyword.iskeyword(s) and not (s.startswith('__') and not s.endswith('__'))


def impl_canon(src):
    lines = scan_lines(src)
    names = [c[0] for c in lines['classes']]
    plain = all(_plain_ident(c[0]) and all(_plain_ident(f) for f, _a in c[2]) for c in lines['classes'])
    out = {'imports': lines['imports'], 'lines': lines['classes'], 'ast': None,
           'names_ok': plain and len(set(names)) == len(names) and not (set(names) & RESERVED)}
    if plain:
        try:
            a = scan_ast(src)
        except SyntaxError:
            a = None
        if a is not None:
            out['ast'] = [[c[0], c[1], c[2]] for c in a['classes']]
            out['ast_imports'] = a['imports']
            out['all_dataclass'] = all(c[3] for c in a['classes'])
    return out


def model_canon(r, impl):
    if 'ok' not in r:
        return r
    m = r['ok']
    out = {'imports': m['imports'],
           'lines': [[c['name'], c['root'], [[f[0], f[2]] for f in c['fields']]] for c in m['classes']],
           'ast': None, 'names_ok': m['names_ok']}
    if impl.get('ast') is not None:
        out['ast'] = [[c['name'], c['root'], [[f[0], f[1]] for f in c['fields']]] for c in m['classes']]
        out['ast_imports'] = m['imports']
        out['all_dataclass'] = True
    return out


DEDUP_WITNESS = [{"x": {"p": {"q": 1}}}, {"x": 5}, {"x": {"p": {"r": 1}}}]


def probe_dedup():
    """is the `o in self` test of TypeContainer.append structural (the dataclass-generated __eq__)?  Witness
    (C19_every_key_has_field_witness): the third element's class differs from the first only below the first level."""
    src = generate(json.dumps(DEDUP_WITNESS), False, False)
    return '    r: int' not in src


# ----------------------------------------------------------------------------- corpus: minimal documents first

CORPUS = [
    {"a": 1, "b": "x", "c": None, "d": [1, 2], "e": {"f": True}},
    [{"a": 1, "b": None}, {"a": "x", "b": 2.5}],
    {"items": [{"id": 1, "tags": ["a"]}, {"id": 2, "tags": []}], "when": "2021-01-31", "at": "12:30", "ts": "2021-01-31T12:30:00Z"},
    {"x": [[1, 2], [3]], "y": [], "z": {}},
    [], {}, [1, "a", None], [[{"a": 1}]],
    {"k": [{"a": [{"p": 1}, {"p": None}]}, {"a": [{"p": 2}]}]},
    [{"k": [{"x": {"p": 1}}]}, {"k": [{"x": {"p": 2}}, {"x": None}]}],
    [{"k": [{"x": [1]}]}, {"k": [{"x": [2]}, {"x": None}]}],
    {"r": [{"k": [{"x": {"p": 1}, "y": 1}]}, {"k": [{"x": None, "y": None}, {"x": {"p": None}, "y": 2}]}]},
    [{"k": [{"x": 1}]}, {"k": [{"x": None}]}, {"k": []}],
    # known shapes
    [{"a": 1}, {"b": 2}],
    DEDUP_WITNESS,
    {"k": [{"a": [{"p": 1}]}, {"a": [None]}]},
    {"a": {"x": {"p": 1}}, "b": {"x": {"q": 1}}},
    {"class": 1}, {"1st": 1}, {"a.b": 1}, {"": 1}, {"None": {"a": 1}}, {"lambda": None},
    {"list": {"a": 1}, "b": [1]},
    {"x": [1, {"a": 2}]},
    {"b": [{"c": "12:30"}, {"c": "2021-01-31"}]},
    {"a": "½"},
    {"ﬁeld": 1},
    {"_name": {"a": 1}, "name": {"b": 2}, "name_": {"c": 3}},
    {"userId": {"a": 1}, "user_id": {"a": 2}},
    {"bases": [{"a": 1}], "reanalyses": [{"b": 2}], "theses": [{"c": 1}]},
    {"reanalyses": [{"b": 2}], "bases": [{"a": 1}], "Reanalyses": [{"c": 2}]},
]


# ----------------------------------------------------------------------------- history: generation after other generations

HISTORY_SCRIPT = r'''
import json, os, sys, tempfile
from dataclass_wizard.wizard_cli.schema import PyCodeGenerator
jobs = json.loads(sys.stdin.read())
out = []
def construct(step):
    # step: [text, experimental, force_strings, via]; a flag is true / false / null (passed as None) / "omit" (argument left out);
    # via: "contents" (file_contents=) | "file" (file_name= of a file holding the text)
    text, exp, force = step[:3]
    via = step[3] if len(step) > 3 else 'contents'
    kw = {}
    if exp != 'omit':
        kw['experimental'] = exp
    if force != 'omit':
        kw['force_strings'] = force
    if via == 'file':
        fd, path = tempfile.mkstemp(suffix='.json', prefix='c19h_')
        with os.fdopen(fd, 'w', encoding='utf-8') as f:
            f.write(text)
        try:
            return PyCodeGenerator(file_name=path, **kw).py_code
        finally:
            os.unlink(path)
    return PyCodeGenerator(file_contents=text, **kw).py_code
for seq in jobs:
    r, w = os.pipe()
    pid = os.fork()
    if pid == 0:
        os.close(r)
        res = []
        for step in seq:
            try:
                res.append(construct(step))
            except Exception as e:
                res.append('<raised %s>' % type(e).__name__)
        with os.fdopen(w, 'w') as f:
            f.write(json.dumps(res))
        os._exit(0)
    os.close(w)
    with os.fdopen(r) as f:
        out.append(json.loads(f.read()))
    os.waitpid(pid, 0)
print(json.dumps(out))
'''

HISTORY_KEYS_A = ['bases', 'theses', 'diagnoses', 'parentheses', 'synopses', 'prognoses', 'people', 'children', 'matrices', 'oxen']
HISTORY_KEYS_B = ['reanalyses', 'psychoanalyses', 'meta_analyses', 'items', 'statuses', 'when']


# strings whose inferred type depends on the flags (number- / bool- / date-looking), shared between the two documents of a pair
HISTORY_SHARED = ['5', '1.5', 'yes', 'true', 'False', '0', '-3', '1e3', '007', '12:30', '2021-01-31', '2021-01-31T12:30:00', 'x', 'N/A']


def history_docs(rng, n):
    pairs = []
    for j in range(n):
        vals = [1, 'x', '2021-01-31', None] + rng.sample(HISTORY_SHARED, 4)
        a = {k: [{'v': rng.choice(vals)}] for k in rng.sample(HISTORY_KEYS_A, rng.randint(1, 4))}
        if rng.random() < 0.5:
            a['stamp'] = rng.choice(DATETIME_STRS + TIME_STRS)
        b = {k: [{'w': rng.choice([2, 'y', None])}, {'w': 3}] for k in rng.sample(HISTORY_KEYS_B, rng.randint(1, 3))}
        if rng.random() < 0.3:
            b, _prof = gen_doc(rng)
        fa, fb = rng.choice(FLAGS), rng.choice(FLAGS)
        if j % 2 == 1:
            # the second document shares values (and sometimes keys) with the first and is generated under other flags: whatever
            # the first generation left behind about a value or a key must not show in the second
            used = [e['v'] for lst in a.values() if isinstance(lst, list) for e in lst if isinstance(e, dict)]
            used = [v for v in used if isinstance(v, str)] or rng.sample(HISTORY_SHARED, 2)
            keys = rng.sample(HISTORY_KEYS_B, rng.randint(1, 3))
            if rng.random() < 0.4:
                keys[0] = rng.choice(sorted(k for k in a if k != 'stamp'))
            b = {k: [{'w': rng.choice(used)}, {'w': rng.choice(used + [3, None])}] for k in keys}
            b['plain'] = rng.choice(used)
            fb = (rng.choice([True, False]), not fa[1])         # the other force-strings setting
            if rng.random() < 0.5:
                a['plain'] = b['plain']
        pairs.append((a, fa, b, fb))
    return pairs


def spell_flags(srng, flags):
    """DIMENSION how a call states its flags.  `flags` = (experimental, force_strings) as booleans; a flag that is off can be passed as
    False, passed as None (the declared default of the constructor argument) or left out of the call; a flag that is on is True.
    Returns [experimental, force_strings] with values True / False / None / 'omit'."""
    return [True if f else srng.choice([False, None, 'omit', 'omit']) for f in flags]


def _step(text, spelled, via='contents'):
    return [text, spelled[0], spelled[1], via]


def run_history(ctx, pairs, srng=None):
    """generation of B in a pristine process (a forked child of a process that only imported the library) vs after
    generating the unrelated A there.  Every call states its flags in some spelling (`spell_flags`: explicit booleans, None, argument
    left out) and hands the document over as text or as a file: the generated text is a function of the document and of which flags
    are ON -- not of how an off flag is spelled, and not of what an earlier call in the process switched on."""
    jobs = []
    cases = []
    for pair in pairs:
        a, fa, b, fb = pair[:4]
        extra = pair[4] if len(pair) > 4 else {}
        sa = extra.get('a_spelled') or (spell_flags(srng, fa) if srng else list(fa))
        sb = extra.get('b_spelled') or (spell_flags(srng, fb) if srng else list(fb))
        va = extra.get('a_via') or (srng.choice(['contents', 'contents', 'file']) if srng else 'contents')
        vb = extra.get('b_via') or (srng.choice(['contents', 'contents', 'file']) if srng else 'contents')
        text_a, text_b = json.dumps(a, ensure_ascii=False), json.dumps(b, ensure_ascii=False)
        ref = _step(text_b, list(fb))                    # explicit booleans, document as text
        tb, ta = _step(text_b, sb, vb), _step(text_a, sa, va)
        # a with every flag ON, stated explicitly, as the first call of the process: the strongest thing an earlier call can leave behind
        on = _step(text_a, [True, True])
        jobs += [[ref], [tb], [ta, tb], [ta, ta, tb, tb], [on, ta, tb], [tb, on, tb]]
        cases.append({'a': a, 'a_flags': list(fa), 'b': b, 'b_flags': list(fb), 'a_spelled': sa, 'b_spelled': sb, 'a_via': va, 'b_via': vb})
    env = dict(os.environ, PYTHONPATH=str(C.REPO))
    p = subprocess.run(['/venv/bin/python', '-c', HISTORY_SCRIPT], input=json.dumps(jobs).encode(), capture_output=True,
                       env=env, timeout=600, cwd='/tmp')
    if p.returncode != 0:
        raise RuntimeError('history subprocess failed: ' + p.stderr.decode()[-800:])
    outs = json.loads(p.stdout.decode())
    K = 6
    for n, case in enumerate(cases):
        o = outs[K * n:K * n + K]
        fresh = o[0][0]
        ctx.seen('history', case)
        if o[1][0] != fresh:
            ctx.fail('history:spelling', case, 'in a pristine process, document b generated with its flags spelled '
                     f'{case["b_spelled"]!r} (document handed over as {case["b_via"]}) differs from the generation with the explicit booleans '
                     f'{case["b_flags"]!r}: {_first_diff(fresh, o[1][0])!r}'[:500], detail=dict(fresh=fresh[:1500], spelled=o[1][0][:1500]))
            continue
        got = {'after a': o[2][1], 'after a, a (first b)': o[3][2], 'after a, a, b (second b)': o[3][3],
               'after a with every flag on, then a': o[4][2], 'first call of the process, before a with every flag on': o[5][0],
               'after b, then a with every flag on': o[5][2]}
        bad = [(k, v) for k, v in got.items() if v != fresh]
        if bad:
            k, v = bad[0]
            ctx.fail('history', case, 'generation of document b differs between a pristine process and one that generated a before '
                     f'({k}; flags of a spelled {case["a_spelled"]!r}, of b {case["b_spelled"]!r}): {_first_diff(fresh, v)!r}'[:600],
                     detail=dict(fresh=fresh[:1500], after=v[:1500], differing=[k for k, _v in bad]))


def replay_history(case):
    class X:
        failures = []

        def seen(self, *a, **k):
            pass

        def fail(self, kind, case, what, key=None, detail=None):
            self.failures.append(dict(kind=kind, what=what, detail=detail))
    x = X()
    extra = {k: case[k] for k in ('a_spelled', 'b_spelled', 'a_via', 'b_via') if k in case}
    run_history(x, [(case['a'], tuple(case['a_flags']), case['b'], tuple(case['b_flags']), extra)])
    return dict(violated=bool(x.failures), failures=x.failures)


# ----------------------------------------------------------------------------- determinism across interpreter processes

HASHSEED_SCRIPT = r"""
import json, sys
import dataclass_wizard
from dataclass_wizard.wizard_cli.schema import PyCodeGenerator
jobs = json.loads(sys.stdin.read())
out = []
for text, exp, force in jobs:
    try:
        out.append(PyCodeGenerator(file_contents=text, experimental=exp, force_strings=force).py_code)
    except Exception as e:
        out.append('<raised %s>' % type(e).__name__)
sys.stdout.write(json.dumps([dataclass_wizard.__file__, out]))
"""

HASHSEEDS = ['0', '1', '7', '42']


def hashseed_children(jobs, seeds):
    """the generated text of every job [document text, experimental, force_strings] in one fresh interpreter per hash seed (two
    ordinary `wiz gs` invocations differ in exactly this way: string hash randomisation is on by default)"""
    procs = []
    for hs in seeds:
        env = dict(os.environ, PYTHONPATH=str(C.REPO), PYTHONHASHSEED=str(hs))
        procs.append(subprocess.Popen(['/venv/bin/python', '-c', HASHSEED_SCRIPT], stdin=subprocess.PIPE, stdout=subprocess.PIPE,
                                      stderr=subprocess.PIPE, env=env, cwd='/tmp'))
    payload = json.dumps(jobs).encode()
    outs = []
    for hs, p in zip(seeds, procs):
        so, se = p.communicate(payload, timeout=600)
        if p.returncode != 0:
            raise RuntimeError(f'hash-seed child (PYTHONHASHSEED={hs}) failed: ' + se.decode('utf-8', 'replace')[-800:])
        where, res = json.loads(so.decode())
        if not where.startswith(str(C.REPO)):
            raise RuntimeError(f'hash-seed child imported {where}, not the tree under test')
        outs.append(res)
    return outs


def _first_diff(a, b):
    la, lb = a.split('\n'), b.split('\n')
    for x, y in zip(la, lb):
        if x != y:
            return [x, y]
    return [f'<{len(la)} lines>', f'<{len(lb)} lines>']


def run_hashseed(ctx, sample, seeds):
    """`sample`: [(document, profile, {(experimental, force_strings): source generated in this process})].  Generation must be
    deterministic: the same document gives byte-identical source in every interpreter process, whatever its hash seed, and the same
    as in this process (where many other documents were generated before; this process's text is the one the oracle imported and
    loaded the document with)."""
    jobs, meta = [], []
    for doc, prof, srcs in sample:
        text = json.dumps(doc, ensure_ascii=False)
        for exp, force in FLAGS:
            jobs.append([text, exp, force])
            meta.append((doc, prof, exp, force, srcs.get((exp, force))))
    if not jobs:
        return
    outs = hashseed_children(jobs, seeds)
    for n, (doc, prof, exp, force, here) in enumerate(meta):
        case = {'doc': doc, 'experimental': exp, 'force_strings': force, 'profile': prof, 'hashseeds': list(seeds)}
        ctx.seen('hashseed', case)
        texts = [o[n] for o in outs]
        groups = {}
        for hs, t in zip(seeds, texts):
            groups.setdefault(t, []).append(hs)
        if len(groups) > 1:
            (t1, s1), (t2, s2) = list(groups.items())[:2]
            ctx.fail('hashseed', case, f'the same document gives {len(groups)} different sources in interpreter processes that differ only '
                     f'in PYTHONHASHSEED ({s1} vs {s2}): {_first_diff(t1, t2)!r}'[:500],
                     detail=dict(groups=[[hs, t[:1500]] for t, hs in groups.items()][:4]))
        elif here is not None and texts[0] != here:
            ctx.fail('hashseed:inprocess', case, 'the source generated in a fresh interpreter differs from the one generated in the checking '
                     f'process (after other generations): {_first_diff(texts[0], here)!r}'[:500],
                     detail=dict(fresh=texts[0][:1500], here=here[:1500]))


def replay_hashseed(case):
    jobs = [[json.dumps(case['doc'], ensure_ascii=False), case['experimental'], case['force_strings']]]
    seeds = case.get('hashseeds') or HASHSEEDS
    outs = hashseed_children(jobs, seeds)
    texts = [o[0] for o in outs]
    here = generate(jobs[0][0], case['experimental'], case['force_strings'])
    loads = None
    tm = TempModules()
    try:
        mod = tm.load(texts[0])
        roots = root_class(mod)
        els = [case['doc']] if isinstance(case['doc'], dict) else [e for e in case['doc'] if isinstance(e, dict)]
        for el in els:
            roots[0].from_dict(json.loads(json.dumps(el)))
        loads = True
    except BaseException as e:
        loads = f'{type(e).__name__}: {e}'[:200]
    finally:
        tm.close()
    distinct = sorted(set(texts))
    base = set(texts[0].split('\n'))
    return dict(violated=len(distinct) > 1 or here != texts[0], distinct_sources=len(distinct), same_in_this_process=here == texts[0],
                first_source_loads_document=loads,
                lines_differing_from_first={hs: [l for l in t.split('\n') if l not in base][:6] for hs, t in zip(seeds, texts)})


# ----------------------------------------------------------------------------- the command line (subprocess)

PRECIOUS = b'# existing output, must survive a failed run\nX = 1\n'

CLI_INPUTS = [
    ('syntaxError', b'{"a": 1'), ('syntaxError', b'{"a": 1} trailing'), ('syntaxError', b''), ('syntaxError', b"{'a': 1}"),
    ('syntaxError', b'[1, 2,]'),
    ('scalarRoot', b'42'), ('scalarRoot', b'"text"'), ('scalarRoot', b'null'), ('scalarRoot', b'true'), ('scalarRoot', b'1.5'),
    ('unreadable', None),
    ('valid', b'{"a": 1, "b": [{"c": null}]}'), ('valid', b'[]'),
]


def run_cli(kind, content, flags=()):
    d = tempfile.mkdtemp(prefix='c19cli_')
    try:
        inp = os.path.join(d, 'in.json')
        out = os.path.join(d, 'out.py')
        if content is not None:
            with open(inp, 'wb') as f:
                f.write(content)
        with open(out, 'wb') as f:
            f.write(PRECIOUS)
        env = dict(os.environ, PYTHONPATH=str(C.REPO))
        p = subprocess.run(['/venv/bin/python', '-m', 'dataclass_wizard.wizard_cli.cli', 'gs', *flags, inp, out],
                           capture_output=True, env=env, timeout=120, cwd=d)
        with open(out, 'rb') as f:
            after = f.read()
        return p.returncode, after, (p.stderr.decode('utf-8', 'replace') + p.stdout.decode('utf-8', 'replace'))[-600:]
    finally:
        shutil.rmtree(d, ignore_errors=True)


def cli_state(after, expected_code=None):
    if after == PRECIOUS:
        return 'unchanged'
    if after == b'':
        return 'emptied'
    if expected_code is not None and after.decode('utf-8', 'replace') == expected_code:
        return 'code'
    return 'other'


def check_cli(ctx, inputs):
    reqs, pend = [], []
    trunc = None
    for kind, content in inputs:
        case = {'input_kind': kind, 'content': None if content is None else content.decode('utf-8', 'replace')}
        ctx.seen('cli', case)
        rc, after, text = run_cli(kind, content)
        code = None
        if kind == 'valid':
            code = generate(content.decode(), False, False)
        st = cli_state(after, code)
        if kind == 'valid':
            if rc != 0 or st != 'code':
                ctx.fail('cli', case, f'valid input: exit status {rc}, output file {st}', detail=dict(output=text))
        else:
            if rc == 0:
                ctx.fail('cli', case, f'invalid input ({kind}) but exit status 0', detail=dict(output=text))
            if st != 'unchanged':
                key = 'gs-output-truncated-early' if (st == 'emptied' and kind in ('syntaxError', 'scalarRoot')) else None
                _fail(ctx, 'cli', case, f'invalid input ({kind}): exit status {rc}, but the pre-existing output file was {st}',
                      key=key, detail=dict(output=text))
            if kind == 'syntaxError' and trunc is None:
                trunc = (st == 'emptied')
        pend.append((case, {'exit': min(rc, 2) if rc >= 0 else 2, 'out': st}, kind))
    trunc = bool(trunc)
    ctx.notes['probed_output_truncated_early'] = trunc
    if ctx.model_available:
        outs = ctx.driver.run([{'op': 'c19', 'cli': k, 'trunc': trunc} for _c, _i, k in pend])
        for (case, impl, _k), o in zip(pend, outs):
            ctx.agree('cli:model', case, impl, o.get('r', {'driver_error': o.get('err')}))


# ----------------------------------------------------------------------------- run

def eval_doc(ctx, tm, rec, doc, prof, dedup, reqs, pend, kind='gen'):
    doc_text = json.dumps(doc, ensure_ascii=False)
    in_domain = keys_model_domain(doc)
    srcs = {}
    for exp, force in FLAGS:
        case = {'doc': doc, 'experimental': exp, 'force_strings': force, 'profile': prof}
        ctx.seen(kind, case)
        rec.take()
        src = oracle(ctx, tm, case, doc, doc_text, exp, force)
        calls = rec.take()
        if src is None:
            continue
        srcs[(exp, force)] = src
        # the generator ran twice: the second half of the calls must repeat the first
        half = len(calls) // 2
        if calls[:half] != calls[half:]:
            ctx.fail('gen:singularize', case, 'English.singularize answered differently in the second generation of the same document',
                     detail=dict(first=calls[:half][:20], second=calls[half:][:20]))
        for w, r in calls[:half]:
            again = rec.real(w)
            if again != r:
                ctx.fail('gen:singularize', case, f'English.singularize({w!r}) gave {r!r} inside the generator and {again!r} when '
                         'called again: it is not a function of the word')
                break
        if not in_domain:
            ctx.count('model_skipped_nonascii_cased_key')
            continue
        if ctx.model_available:
            reqs.append({'op': 'c19', 'doc': M.enc_j(doc), 'experimental': exp, 'force_strings': force, 'dedup': dedup,
                         'std': std_tables(doc, calls[:half])})
            pend.append((case, impl_canon(src)))
    return srcs


def run(ctx: C.Ctx):
    import time
    rng = ctx.rng
    ctx.rule = ('JSON documents from templates (objects/arrays to depth 4; arrays of sibling objects with nulls, missing keys, '
                'mixed kinds; empty containers; date/time/datetime/number/bool-looking and near-miss strings; keys over identifiers, '
                'keywords, digits-first, punctuation, unicode, case variants, underscore variants, inflector words, names colliding '
                'with Data/Container/typing names, repeated names at different paths, several key-less positions (lists of lists of objects under '
                'sibling keys / next to nested objects / in sibling objects / at the root), keys whose class name is empty / blank / one letter / '
                'digits only holding lists of objects, lists of lists and objects, positions collecting several scalar types (mixed lists at several '
                'depths, sibling lists whose merge step adds two or more types at once) — each unusual shape enabled per document with '
                'a small probability so that most documents are ones the unchanged generator handles) x 4 flag combinations: source '
                'vs Lean module AST (ast + line scan), import as a real module, root class loads every source element, inferred '
                'types, every key has a field, generation twice; A-then-B vs pristine B in forked children of a fresh process, every call stating its flags in some spelling (True / False / None / argument left out) and handing the document over as text or as a file, also after a generation with every flag on; a sample '
                '(corpus, many-types family, random documents) generated in fresh interpreters under PYTHONHASHSEED 0 / 1 / 7 / 42 / a seeded '
                'random one and compared byte for byte with each other and with the text this process generated and loaded; the '
                'CLI as a subprocess on temp files with a pre-existing output. Non-trivial = distinct (document, flags).')
    ctx.trusted += [
        'stdlib string tests (date/time/datetime.fromisoformat, str.isdecimal, float(), str.lower) and English.singularize are '
        'table-backed in the model: tables computed with the stdlib / recorded from the real calls, a table miss voids nothing '
        '(it is reported as a disagreement)',
        'model domain: keys whose non-ASCII letters are uncased (string model is ASCII-cased); other keys are oracle-only',
        '"valid Python that imports" and "from_dict loads the document" are runtime facts established by the oracle on every case, '
        'not by a theorem',
    ]
    n = ctx.quick(1500, 20000)
    budget = ctx.quick(34, 430)
    t0 = time.time()
    tm = TempModules()
    rec = SingRecorder()
    rec.install()
    reqs, pend = [], []
    sample = []                               # documents for the cross-process comparison (run_hashseed)
    n_sample_random = ctx.quick(60, 600)
    try:
        dedup = probe_dedup()
        rec.take()
        ctx.notes['probed_dedup_by_eq'] = dedup
        idx = 0
        for doc in CORPUS:
            i, idx = idx, idx + 1
            if ctx.done(i):
                break
            if not ctx.begin_case(i):
                continue
            srcs = eval_doc(ctx, tm, rec, doc, ['corpus'], dedup, reqs, pend)
            sample.append((doc, ['corpus'], srcs))
        # directed families (their own generator, seeded from the run's seed, so that the main stream below is the same with and
        # without them): keys with an empty / degenerate class name; positions collecting several scalar types
        frng = random.Random(f'C19:{ctx.seed}:families')
        for j in range(ctx.quick(140, 1600)):
            i, idx = idx, idx + 1
            if ctx.done(i):
                break
            doc, prof = gen_family_doc(frng, ('degenerate-name', 'many-types')[j % 2])
            if not ctx.begin_case(i):
                continue
            srcs = eval_doc(ctx, tm, rec, doc, prof, dedup, reqs, pend)
            if j % 2 == 1 or j % 8 == 0:
                sample.append((doc, prof, srcs))
        t0 = time.time()
        for j in range(n):
            i, idx = idx, idx + 1
            if ctx.done(i) or (ctx.only is None and time.time() - t0 > budget):
                break
            doc, prof = gen_doc(rng)
            if not ctx.begin_case(i):
                continue
            srcs = eval_doc(ctx, tm, rec, doc, prof, dedup, reqs, pend)
            if j < n_sample_random:
                sample.append((doc, prof, srcs))
        if rec.conflicts:
            w, a, b = rec.conflicts[0]
            ctx.current = None
            ctx.fail('gen:singularize', {'word': w}, f'English.singularize({w!r}) returned {a!r} earlier in this process and {b!r} later '
                     f'({len(rec.conflicts)} such words): generation depends on earlier runs')
    finally:
        rec.uninstall()
        tm.close()
    if ctx.model_available and reqs:
        outs = ctx.driver.run(reqs)
        for (case, impl), o in zip(pend, outs):
            if 'r' not in o:
                ctx.agree('gen:model', case, impl, {'driver_error': o.get('err')})
                continue
            r = o['r']
            if r.get('stdmiss'):
                # the model asked the tables something the generator did not: its naming / typing logic diverged
                ctx.agree('gen:model', case, impl, {'stdmiss': True})
                continue
            ctx.agree('gen:model', case, impl, model_canon(r, impl))
        kw = ctx.driver.run([{'op': 'c19', 'keywords': True}])[0].get('r')
        ctx.agree('keywords', 'keyword.kwlist', sorted(keyword.kwlist), sorted(kw or []))
    if ctx.only is None:
        ctx.current = None
        run_history(ctx, history_docs(rng, ctx.quick(16, 160)), random.Random(f'C19:{ctx.seed}:flag-spelling'))
        run_hashseed(ctx, sample, HASHSEEDS + [str(random.Random(f'C19:{ctx.seed}:hashseed').randrange(2 ** 32))])
        check_cli(ctx, CLI_INPUTS if ctx.tier != 'quick' else CLI_INPUTS[:1] + CLI_INPUTS[5:7] + CLI_INPUTS[10:12])


def replay(obj):
    C.setup_repo_path()
    kind, case = obj['kind'], obj['case']
    if kind.startswith('history'):
        return replay_history(case)
    if kind.startswith('hashseed'):
        return replay_hashseed(case)
    if kind == 'cli':
        content = None if case['content'] is None else case['content'].encode()
        rc, after, text = run_cli(case['input_kind'], content)
        st = cli_state(after)
        bad = (case['input_kind'] != 'valid') and (rc == 0 or st != 'unchanged')
        return dict(violated=bad, exit=rc, output_file=st, demanded='exit != 0 and output file unchanged', text=text)
    if kind.startswith('gen') and 'doc' in case:
        ctx = C.Ctx('C19', 'quick', 0)
        ctx.model_available = False
        tm = TempModules()
        try:
            oracle(ctx, tm, case, case['doc'], json.dumps(case['doc'], ensure_ascii=False), case['experimental'], case['force_strings'])
        finally:
            tm.close()
        return dict(violated=bool(ctx.failures), failures=[dict(kind=f['kind'], what=f['what'], key=f['key']) for f in ctx.failures])
    return dict(violated=False, note='unknown kind')
