"""C09, third stream — *how a field is bound to the document* x absent keys, both engines.

The two main streams (c09.py) key every field by its own name.  Here each field of a class model is bound through one of
the documented forms
    default engine   plain | json_field('K', ..) | Annotated[T, json_key('K')] | path_field('a.b' | ['a', 'b'], ..) |
                     Annotated[T, KeyPath('a.b')]
    v1 engine        plain | Alias('K', ..) | Alias(load='K', ..) | Annotated[T, Alias('K')] | AliasPath('a.b', ..) |
                     Annotated[T, AliasPath('a.b')]
and carries no default / a literal default / a default_factory (list, dict, set), stated inside the binding call, as the
right-hand side of an Annotated field or through field(default_factory=..); init=False fields ride along.  The class is
the main class or the element type of a field of a main class.  A case is one class with a *history*: every subset of its
deletable keys (the alias key, the leaf of the path), in a shuffled order, each loaded three times on the same classes —
    success exactly when no required key is deleted, else MissingFields naming the class and exactly the omitted
    required fields, and the message renders;
    present fields hold their values, omitted ones their declared default, init=False fields are never demanded;
    default_factory products are fresh per instance: not identical between two loads, and after every container of the
    first instance was mutated a third load still shows the declared defaults.

Kept out for now (genuine deviations of the unchanged library, see the files named):
  * a path-bound field typed `Any` with a default_factory in the default engine shares one product between all loads
    (repaired by fa12b2f; findings/path-default-factory-shared.py is the directed regression);
  * a *required* path-bound field whose path is absent raises ParseError (naming the path) instead of MissingFields, on
    both engines (findings/required-path-absent-parse-error.py) — such fields are generated, but their key is
    never deleted.
"""
from __future__ import annotations

import copy
import itertools

from harness import model
from harness.model import T

WORDS = ['ab', 'my', 'id', 'txt', 'val', 'name', 'count', 'data', 'item', 'key', 'user', 'flag', 'size', 'zone', 'tags', 'unit2']
ALIAS_KEYS = ['RA', 'itemId', 'the key', 'x-y', 'K9', 'Total_Sum', 'item_count', 'ünï', "it's", 'a.b', 'n']
PATH_WORDS = ['meta', 'info', 'cfg', 'p', 'data set', 'tags', 'x', 'leaf', 'q9', 'Deep']

# type -> (annotation, document value, loaded value, literal defaults, factory)
TYPES = {
    'int': ('int', 7, 7, [0, -7], None),
    'str': ('str', 'v', 'v', ['', 'dflt'], None),
    'optint': ('Optional[int]', 4, 4, [None], None),
    'any': ('Any', 'z', 'z', [None, 3], 'list'),
    'list': ('list[int]', [1, 2], [1, 2], [], 'list'),
    'dict': ('dict[str, int]', {'a': 1}, {'a': 1}, [], 'dict'),
    'set': ('set[int]', [3], {3}, [], 'set'),
    'optlist': ('Optional[list[int]]', [5], [5], [None], 'list'),
    'dictlist': ('dict[str, list[int]]', {'k': [1]}, {'k': [1]}, [], 'dict'),
}
FORMS = {
    ('default', 'plain'): ['plain'],
    ('default', 'alias'): ['json_field', 'ann_json_key'],
    ('default', 'path'): ['path_field', 'path_field_list', 'ann_key_path'],
    ('v1', 'plain'): ['plain'],
    ('v1', 'alias'): ['alias', 'alias_load', 'ann_alias'],
    ('v1', 'path'): ['alias_path', 'ann_alias_path'],
}


def _fname(rng, used):
    while True:
        n = '_'.join(rng.choice(WORDS) for _ in range(rng.randint(1, 3)))
        if n not in used:
            used.add(n)
            return n


def gen_class(rng, engine):
    used, keys = set(), set()
    fields = []
    heads = rng.sample(PATH_WORDS, 3)
    for _ in range(rng.randint(2, 5)):
        name = _fname(rng, used)
        tk = rng.choice(list(TYPES))
        ann, docv, val, lits, fac = TYPES[tk]
        r = rng.random()
        bind = 'plain' if r < 0.25 else 'alias' if r < 0.5 else 'path'
        r = rng.random()
        if fac and r < 0.55:
            dflt = ['fac', fac]
        elif lits and r < 0.8:
            dflt = ['lit', rng.choice(lits)]
        else:
            dflt = None
        f = {'name': name, 'ty': tk, 'dflt': dflt, 'bind': bind, 'form': rng.choice(FORMS[(engine, bind)]), 'deletable': True}
        if bind == 'alias':
            pool = [k for k in ALIAS_KEYS if k not in keys and k not in used]
            f['key'] = rng.choice(pool)
            keys.add(f['key'])
        elif bind == 'path':
            for _try in range(50):
                comps = [rng.choice(heads)] + [rng.choice(PATH_WORDS) for _ in range(rng.randint(1, 2))]
                # no path may be a prefix of (or equal to) another one: each leaf is its own key position
                others = [g['key'] for g in fields if g['bind'] == 'path']
                if not any(p[:min(len(p), len(comps))] == comps[:min(len(p), len(comps))] for p in others):
                    break
            else:
                raise IndexError('no path')
            f['key'] = comps
            keys.add(comps[0])
            if dflt is None:
                f['deletable'] = False           # kept out: findings/required-path-absent-parse-error.py
        # how the default is stated
        f['dflt_in'] = rng.choice(['call', 'rhs']) if f['form'] not in ('plain',) and not f['form'].startswith('ann_') else 'rhs'
        fields.append(f)
    for f in fields:                             # no field may be called like someone's alias / path head (its own name is a key too)
        if f['name'] in keys:
            raise IndexError('name clash')
    fields.sort(key=lambda f: f['dflt'] is not None)
    noinit = None
    if rng.random() < 0.4:
        noinit = {'name': _fname(rng, used), 'dflt': rng.choice([0, 'computed', None]), 'factory': rng.random() < 0.3}
    holder = rng.choice([None, None, 'direct', 'list', 'dict'])
    return {'engine': engine, 'fields': fields, 'noinit': noinit, 'holder': holder,
            'key_case': rng.choice([None, None, 'AUTO']) if engine == 'v1' else None,
            'inner_wizard': rng.random() < 0.4, 'api': rng.choice(['method', 'function'])}


def _dflt_src(d):
    if d[0] == 'lit':
        return f'default={d[1]!r}'
    return f'default_factory={d[1]}'


def render(cm, cname, oname):
    eng = cm['engine']
    meta = []
    if eng == 'v1':
        meta = ['v1 = True'] + ([f'v1_key_case = {cm["key_case"]!r}'] if cm['key_case'] else [])
    nested = cm['holder'] is not None
    base = '(JSONWizard)' if (not nested or cm['inner_wizard']) else ''
    L = ['@dataclass', f'class {cname}{base}:']
    if not nested and meta:
        L.append('    class _(JSONWizard.Meta):')
        L += ['        ' + m for m in meta]
    for f in cm['fields']:
        ann = TYPES[f['ty']][0]
        d = f['dflt']
        form = f['form']
        incall = [_dflt_src(d)] if (d is not None and f['dflt_in'] == 'call') else []
        rhs_d = None
        if d is not None and f['dflt_in'] == 'rhs':
            rhs_d = repr(d[1]) if d[0] == 'lit' else f'field(default_factory={d[1]})'
        key = f.get('key')
        dotted = '.'.join(key) if isinstance(key, list) and all(c.isidentifier() for c in key) else None
        ptxt = repr(dotted) if dotted else repr(''.join('[%r]' % c for c in key)) if isinstance(key, list) else None
        call = None
        if form == 'json_field':
            call = f'json_field({", ".join([repr(key)] + incall)})'
        elif form == 'ann_json_key':
            ann = f'Annotated[{ann}, json_key({key!r})]'
        elif form == 'path_field':
            call = f'path_field({", ".join([ptxt] + incall)})'
        elif form == 'path_field_list':
            call = f'path_field({", ".join([repr(key)] + incall)})'
        elif form == 'ann_key_path':
            ann = f'Annotated[{ann}, KeyPath({ptxt})]'
        elif form == 'alias':
            call = f'Alias({", ".join([repr(key)] + incall)})'
        elif form == 'alias_load':
            call = f'Alias({", ".join(["load=" + repr(key)] + incall)})'
        elif form == 'ann_alias':
            ann = f'Annotated[{ann}, Alias({key!r})]'
        elif form == 'alias_path':
            call = f'AliasPath({", ".join([ptxt] + incall)})'
        elif form == 'ann_alias_path':
            ann = f'Annotated[{ann}, AliasPath({ptxt})]'
        if call is not None and rhs_d is not None:
            # binding call without a default + a separate default is not expressible: state the default in the call
            call = call[:-1] + (', ' if not call.endswith('(') else '') + _dflt_src(d) + ')'
            rhs_d = None
        rhs = call if call is not None else rhs_d
        L.append(f'    {f["name"]}: {ann}' + (f' = {rhs}' if rhs is not None else ''))
    ni = cm['noinit']
    if ni:
        if ni['factory']:
            L.append(f'    {ni["name"]}: Any = field(init=False, default_factory=list)')
        else:
            L.append(f'    {ni["name"]}: Any = field(init=False, default={ni["dflt"]!r})')
    src = '\n'.join(L) + '\n'
    if nested:
        hty = {'direct': cname, 'list': f'list[{cname}]', 'dict': f'dict[str, {cname}]'}[cm['holder']]
        O = ['@dataclass', f'class {oname}(JSONWizard):']
        if meta:
            O.append('    class _(JSONWizard.Meta):')
            O += ['        ' + m for m in meta]
        O.append(f'    held: {hty}')
        src += '\n'.join(O) + '\n'
    return src


SRC_EXTRA = '''
from typing import Annotated
from dataclass_wizard.v1 import Alias, AliasPath
'''


def make_doc(cm, deleted):
    doc = {}
    for f in cm['fields']:
        if f['name'] in deleted:
            continue
        v = copy.deepcopy(TYPES[f['ty']][1])
        if f['bind'] == 'plain':
            doc[f['name']] = v
        elif f['bind'] == 'alias':
            doc[f['key']] = v
        else:
            cur = doc
            for c in f['key'][:-1]:
                cur = cur.setdefault(c, {})
            cur[f['key'][-1]] = v
    return doc


def wrap(cm, d):
    h = cm['holder']
    if h is None:
        return d
    return {'held': {'direct': d, 'list': [d], 'dict': {'k': d}}[h]}


def unwrap(cm, y):
    h = cm['holder']
    if h is None:
        return y
    return {'direct': lambda v: v, 'list': lambda v: v[0], 'dict': lambda v: v['k']}[h](y.held)


def _same(a, b):
    return type(a) is type(b) and a == b


def _mutate(v):
    if isinstance(v, list):
        v.append(99)
        for x in v:
            _mutate(x) if isinstance(x, (list, dict, set)) else None
    elif isinstance(v, dict):
        for x in v.values():
            _mutate(x) if isinstance(x, (list, dict, set)) else None
        v['zz'] = 99
    elif isinstance(v, set):
        v.add(99)


def declared_default(d):
    if d[0] == 'lit':
        return d[1]
    return {'list': [], 'dict': {}, 'set': set()}[d[1]]


def run_case(cm, subsets, fail, seen=None):
    from dataclass_wizard import fromdict
    from dataclass_wizard.errors import MissingFields
    cname, oname = model.fresh('B'), model.fresh('H')
    src = render(cm, cname, oname)
    built = model.Built(T('any'), extra_src=SRC_EXTRA + src)
    try:
        Main = built.get(oname if cm['holder'] else cname)

        def load(d):
            d = copy.deepcopy(d)
            if cm['api'] == 'method':
                return Main.from_dict(d)
            return fromdict(Main, d)
        for si, S in enumerate(subsets):
            doc = wrap(cm, make_doc(cm, S))
            where = f'load {si + 1}/{len(subsets)} of the history, keys of {sorted(S)} deleted, document {doc!r}'
            if seen:
                seen(S)
            missing = sorted(f['name'] for f in cm['fields'] if f['name'] in S and f['dflt'] is None)
            try:
                y1 = load(doc)
            except Exception as e:                 # noqa
                if not missing:
                    fail(si, f'{where}: no required key deleted, but the load raised {type(e).__name__}: {str(e)[:300]}', src)
                elif not isinstance(e, MissingFields):
                    fail(si, f'{where}: required field(s) {missing} omitted: expected MissingFields, got {type(e).__name__}: {str(e)[:300]}', src)
                else:
                    got = sorted(e.missing_fields)
                    if got != missing or e.class_name != cname:
                        fail(si, f'{where}: MissingFields(class={e.class_name}, missing={got}), expected class={cname}, missing={missing}', src)
                    try:
                        assert isinstance(str(e), str)
                    except Exception as ee:        # noqa
                        fail(si, f'{where}: str(MissingFields) raised {ee!r}', src)
                continue
            if missing:
                fail(si, f'{where}: required field(s) {missing} omitted, but the load returned {y1!r}'[:900], src)
                continue
            y2 = load(doc)
            o1, o2 = unwrap(cm, y1), unwrap(cm, y2)
            bad = False
            for pass_no, o in ((1, o1), (2, o2), (3, None)):
                if pass_no == 3:
                    # every container of the first two instances is changed; the next instance must not show it
                    for f in cm['fields']:
                        _mutate(getattr(o1, f['name']))
                        _mutate(getattr(o2, f['name']))
                    if cm['noinit'] and cm['noinit']['factory']:
                        _mutate(getattr(o1, cm['noinit']['name']))
                    o = unwrap(cm, load(doc))
                for f in cm['fields']:
                    got = getattr(o, f['name'])
                    if f['name'] in S:
                        want = declared_default(f['dflt'])
                        if not _same(got, want):
                            fail(si, f'{where}: omitted field {f["name"]} of instance {pass_no} holds {got!r}, declared default {want!r}'
                                     + (' (after the containers of the earlier instances were modified)' if pass_no == 3 else ''), src)
                            bad = True
                    else:
                        want = TYPES[f['ty']][2]
                        if not _same(got, want):
                            fail(si, f'{where}: present field {f["name"]} of instance {pass_no} holds {got!r}, expected {want!r}', src)
                            bad = True
                ni = cm['noinit']
                if ni:
                    got = getattr(o, ni['name'])
                    want = [] if ni['factory'] else ni['dflt']
                    if not _same(got, want):
                        fail(si, f'{where}: init=False field {ni["name"]} of instance {pass_no} holds {got!r}, declared default {want!r}', src)
                        bad = True
                if bad:
                    break
                if pass_no == 2:
                    for f in cm['fields']:
                        if f['name'] in S and f['dflt'][0] == 'fac' and getattr(o1, f['name']) is getattr(o2, f['name']):
                            fail(si, f'{where}: two loaded instances share one default_factory product for the omitted field {f["name"]}', src)
                            bad = True
                    if bad:
                        break
    finally:
        built.close()


def run(ctx, rng, base_index):
    ctx.rule += (' || BINDING STREAM: classes of 2..5 fields over 9 types, each bound plainly / through an alias (json_field, json_key, '
                 'Alias) / through a path (path_field, KeyPath, AliasPath) with no / literal / default_factory default stated in the call, '
                 'as right-hand side or via field(), plus init=False fields; main class or element of a field (direct / list / dict) of '
                 'a main class; every subset of the deletable keys in shuffled order as one history, three loads each: exact '
                 'MissingFields, declared defaults, fresh default_factory products (identity and mutation), values of present fields.')
    n = ctx.quick(260, 2600)
    for ci in range(n):
        engine = 'default' if ci % 2 == 0 else 'v1'
        try:
            cm = gen_class(rng, engine)
        except IndexError:
            ctx.count('bind:gen_retry')
            continue
        names = [f['name'] for f in cm['fields'] if f['deletable']]
        subsets = [frozenset(s) for r in range(len(names) + 1) for s in itertools.combinations(names, r)]
        rng.shuffle(subsets)
        idx = base_index + ci
        if not ctx.begin_case(idx):
            if ctx.done(idx):
                break
            continue
        if ctx.done(idx):
            break
        case = {'cm': cm, 'history': [sorted(s) for s in subsets]}

        def fail(si, what, src, case=case):
            ctx.fail(f'bind:{case["cm"]["engine"]}', dict(case, step=si), what, detail=src)
        try:
            run_case(cm, subsets, fail, seen=lambda S, cm=cm: ctx.seen(f'bind:{cm["engine"]}', [cm, sorted(S)], nontrivial=bool(S)))
        except Exception as e:                     # noqa
            ctx.count('bind:build_error')
            ctx.notes.setdefault('bind_build_errors', []).append(repr(e)[:300])
