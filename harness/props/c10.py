"""C10 — unknown keys are ignored, rejected or captured exactly as configured (default engine part)."""
from __future__ import annotations

import copy
import json
import re

from harness import common as C
from harness import gen, model, ref
from harness.model import T
from harness.props.c01 import compare_load, load_outcome
from harness.props.c05 import plain_doc
from harness.props import v1streams

EXTRA_POOL = ['zzz', 'extra_key', 'extraKey', 'Extra-Key', 'X', 'unknown field', 'q1', '__other__', 'élan', 'a.b', 'x[0]', '',
              'ZZ_TOP', 'né', '1abc', 'with"quote', "it's", 'UPPER', 'tag', '__tag__x']


def normal_forms(k):
    s = k.replace('-', '_').replace(' ', '_')
    s2 = re.sub(r'((?!^)(?<!_)[A-Z][a-z]+|(?<=[a-z0-9])[A-Z])', r'_\1', s)
    return {k.lower(), s.lower(), s2.lower(), re.sub('_+', '_', s2.lower()), re.sub('_+', '_', s.lower())}


def unknown_for(key, field_names):
    low = {f.lower() for f in field_names}
    return not (normal_forms(key) & low) and key not in field_names


def gen_case(rng, policy, depth):
    o = gen.Opts(meta_keys=[], meta_prob=0.0, allow_union=False, allow_nt=False, allow_td=False, allow_cls=False,
                 leaves=['int', 'str', 'bool', 'float', 'any'], containers=['list', 'dict'], max_fields=4, wizard_prob=0.7,
                 py_wizard_prob=0.0)
    ty = gen.gen_cls(rng, 1, o)
    info = ty['info']
    meta = {}
    if policy == 'raise':
        meta['raise_on_unknown_json_key'] = True
    if rng.random() < 0.3:
        meta['key_transform_with_load'] = rng.choice(['SNAKE', 'CAMEL', 'NONE'])
    if rng.random() < 0.25:
        meta['tag'] = model.fresh('tg')
        if rng.random() < 0.5:
            meta['tag_key'] = rng.choice(['type', 'kind'])
    info['meta'] = meta or None
    if policy in ('catchall', 'catchall-default'):
        cf = {'name': 'extras_fld', 'catch_all': True}
        if policy == 'catchall-default':
            cf['dflt'] = ['lit', None] if rng.random() < 0.5 else ['dict']
            cf['factory'] = cf['dflt'][0] != 'lit'
            info['fields'].append(cf)
        else:
            # a field without default must precede defaulted ones
            idx = next((i for i, f in enumerate(info['fields']) if f.get('dflt') is not None), len(info['fields']))
            info['fields'].insert(idx, cf)
        ty['ftys'].append(['extras_fld', T('any')])
    # nest it `depth` levels down
    target = ty
    for _ in range(depth):
        outer = {'k': 'cls', 'info': {'name': model.fresh('O'), 'fields': [{'name': 'inner_obj'}, {'name': 'num', 'dflt': ['lit', 0], 'factory': False}],
                                      'wizard': True, 'meta': None},
                 'ftys': [['inner_obj', rng.choice([ty, T('list', ty)]) if False else ty], ['num', T('int')]]}
        ty = outer
    return ty, target


def inner_doc(doc, depth):
    cur = doc
    for _ in range(depth):
        cur = cur['inner_obj']
    return cur


def run(ctx: C.Ctx):
    v1streams.run_streams(ctx, run_default, run_v1)


def run_default(ctx: C.Ctx):
    from dataclass_wizard import fromdict, asdict
    from dataclass_wizard.errors import UnknownKeysError
    rng = ctx.rng
    gen.SUBS = False
    ctx.rule = ('policy in {ignore, raise, catch-all, catch-all with default} × nesting depth 0..2 × a complete document plus a set U '
                'of 0..3 extra keys none of whose casing-normalisations reaches a field (near-miss spellings, non-identifiers, the tag '
                'key of tagged classes) × the same call repeated 1..3 times, default engine: outcome vs the specification, vs the Lean '
                'model, and to_dict(from_dict(d)) for catch-all. Non-trivial = distinct (class, document) with U non-empty.')
    n = ctx.quick(700, 8000)
    reqs, pend = [], []
    for i in range(n):
        if ctx.done(i):
            break
        policy = rng.choice(['ignore', 'raise', 'raise', 'catchall', 'catchall-default'])
        depth = rng.choice([0, 0, 1, 2])
        ty, target = gen_case(rng, policy, depth)
        try:
            built = model.Built(ty)
        except Exception as e:
            ctx.count('build_error')
            ctx.notes.setdefault('build_errors', []).append(repr(e)[:300])
            continue
        try:
            x = gen.gen_instance(rng, ty, built, use_defaults_prob=0.2)
            tinfo = target['info']
            fnames = [f['name'] for f in tinfo['fields'] if not f.get('catch_all')]
            base = json.loads(json.dumps(plain_doc(x, ty, built)))
            # plain_doc emits the catch-all field under its own name: remove it (it is never a document key)
            inner_doc(base, depth).pop('extras_fld', None)
            tmeta = tinfo.get('meta') or {}
            tag_key = tmeta.get('tag_key') or '__tag__'
            has_tag = tmeta.get('tag') is not None
            if has_tag and rng.random() < 0.5:
                inner_doc(base, depth).pop(tag_key, None)
            k = rng.choice([0, 1, 1, 2, 3])
            U = {}
            for key in rng.sample(EXTRA_POOL, k):
                if unknown_for(key, fnames) and not (has_tag and key == tag_key):
                    U[key] = rng.choice([1, 'v', None, [1, 2], {'a': 1}, True, 2.5])
            d = copy.deepcopy(base)
            tgt = inner_doc(d, depth)
            items = list(tgt.items())
            for key, v in U.items():
                items.insert(rng.randint(0, len(items)), (key, v))
            tgt.clear()
            tgt.update(items)
            reps = rng.choice([1, 2, 3])
            if not ctx.begin_case(i):
                continue
            case = {'ty': ty, 'doc': repr(d)[:500], 'policy': policy, 'depth': depth, 'U': repr(U), 'reps': reps}
            ctx.seen('unknown:' + policy, case, nontrivial=bool(U))
            src = dict(src=built.source)
            base_out = load_outcome(lambda: fromdict(built.root, copy.deepcopy(base)))
            outs = [load_outcome(lambda: fromdict(built.root, copy.deepcopy(d))) for _ in range(reps)]
            for rep, out in enumerate(outs, 1):
                check(ctx, case, rep, policy, out, base_out, U, depth, target, built, src, has_tag, tag_key, d)
            st = model.StdTables()
            st.add_json(d)
            reqs.append({'op': 'load', 'ty': model.enc_ty(ty), 'doc': model.enc_j(d), 'std': st.build()})
            pend.append((case, outs[-1], built))
        finally:
            built.close()
    if ctx.model_available:
        outs_m = ctx.driver.run(reqs)
        for (case, out, built), o_ in zip(pend, outs_m):
            compare_load(ctx, 'unknown', case, out, o_, built)


def dig(y, depth):
    for _ in range(depth):
        y = y.inner_obj
    return y


def check(ctx, case, rep, policy, out, base_out, U, depth, target, built, src, has_tag, tag_key, d):
    from dataclass_wizard import asdict
    from dataclass_wizard.errors import UnknownKeysError
    kind = 'unknown:' + policy
    tname = target['info']['name']
    if base_out[0] == 'err':
        return     # the complete document itself does not load (not this property's business)
    if policy == 'raise' and U:
        if out[0] == 'ok':
            ctx.fail(kind, case, f'call #{rep}: document with unknown key(s) {sorted(U)} was accepted under raise_on_unknown_json_key', detail=src)
            return
        e = out[1]
        if not isinstance(e, UnknownKeysError):
            ctx.fail(kind, case, f'call #{rep}: expected UnknownKeysError, got {type(e).__name__}: {str(e)[:200]}', detail=src)
            return
        keys = [e.unknown_keys] if isinstance(e.unknown_keys, str) else list(e.unknown_keys)
        if not keys or not set(keys) <= set(U):
            ctx.fail(kind, case, f'call #{rep}: UnknownKeysError names {keys!r}, the unknown keys of the document are {sorted(U)}', detail=src)
        if e.class_name != tname:
            ctx.fail(kind, case, f'call #{rep}: UnknownKeysError names class {e.class_name!r}, expected {tname!r}', detail=src)
        try:
            str(e)
        except Exception as ee:
            ctx.fail(kind, case, f'str(UnknownKeysError) raised {ee!r}', detail=src)
        return
    if out[0] == 'err':
        ctx.fail(kind, case, f'call #{rep}: load raised {type(out[1]).__name__}: {str(out[1])[:300]} (policy {policy}, unknown keys {sorted(U)})', detail=src)
        return
    y, yb = dig(out[1], depth), dig(base_out[1], depth)
    # mapped fields unaffected
    for f in target['info']['fields']:
        if f.get('catch_all'):
            continue
        if not ref.same_typed(getattr(y, f['name']), getattr(yb, f['name'])):
            ctx.fail(kind, case, f'call #{rep}: field {f["name"]} = {getattr(y, f["name"])!r} with extra keys, {getattr(yb, f["name"])!r} without', detail=src)
            return
    if policy in ('catchall', 'catchall-default'):
        got = y.extras_fld
        cf = next(f for f in target['info']['fields'] if f.get('catch_all'))
        if U:
            if not (isinstance(got, dict) and list(got.items()) == [(k, v) for k, v in _in_doc_order(U, d, depth)] and
                    all(ref.same_typed(got[k], U[k]) for k in U)):
                ctx.fail(kind, case, f'call #{rep}: catch-all field holds {got!r}, expected exactly {U!r}', detail=src)
                return
            back = asdict(out[1])
            tgt = back
            for _ in range(depth):
                tgt = tgt.get('innerObj', tgt.get('inner_obj'))
            for k, v in U.items():
                if k not in tgt or not ref.same_typed(tgt[k], v):
                    ctx.fail(kind, case, f'call #{rep}: to_dict(from_dict(d)) lost / changed unknown pair {k!r}: {v!r}; got {tgt!r}'[:800], detail=src)
                    return
        else:
            want = ref.dflt_value(cf['dflt']) if cf.get('dflt') is not None else {}
            if not ref.same_typed(got, want):
                ctx.fail(kind, case, f'call #{rep}: no unknown keys, catch-all field holds {got!r}, expected {want!r}', detail=src)


def _in_doc_order(U, d, depth):
    tgt = inner_doc(d, depth)
    return [(k, tgt[k]) for k in tgt if k in U]


# --------------------------------------------------------------------------- v1 engine

V1_POLICIES = ['ignore', 'ignore-explicit', 'raise', 'raise', 'warn', 'catchall', 'catchall', 'catchall-default', 'catchall-default']


def gen_case_v1(rng, policy, depth, nm):
    """(root type, target type, where the policy is declared): the target carries `policy` either in its own Meta or — when nested —
    through the ROOT's Meta (cascade); the root is always bound to the v1 engine"""
    o = gen.Opts(meta_keys=[], meta_prob=0.0, allow_union=False, allow_nt=False, allow_td=False, allow_cls=False,
                 leaves=['int', 'str', 'bool', 'float', 'any'], containers=['list', 'dict'], max_fields=4, wizard_prob=0.7,
                 py_wizard_prob=0.0)
    ty = gen.gen_cls(rng, 1, o, name=nm('T'))
    info = ty['info']
    pol = {}
    if policy == 'raise':
        pol['v1_on_unknown_key'] = 'RAISE'
    elif policy == 'warn':
        pol['v1_on_unknown_key'] = 'WARN'
    elif policy == 'ignore-explicit':
        pol['v1_on_unknown_key'] = 'IGNORE'
    where = 'own' if depth == 0 or rng.random() < 0.6 else 'root'
    meta = dict(pol) if where == 'own' else {}
    if rng.random() < 0.2:
        (meta if where == 'own' else pol)['v1_key_case'] = 'AUTO'
    if rng.random() < 0.4:
        meta['tag'] = nm('tg')
        if rng.random() < 0.5:
            meta['tag_key'] = rng.choice(['type', 'kind'])
    if policy in ('catchall', 'catchall-default'):
        cf = {'name': 'extras_fld', 'catch_all': True}
        if policy == 'catchall-default':
            cf['dflt'] = ['lit', None] if rng.random() < 0.98 else ['dict']
            cf['factory'] = cf['dflt'][0] != 'lit'
            info['fields'].append(cf)
        else:
            idx = next((i for i, f in enumerate(info['fields']) if f.get('dflt') is not None), len(info['fields']))
            info['fields'].insert(idx, cf)
        ty['ftys'].append(['extras_fld', T('any')])
    target = ty
    if depth == 0:
        meta['v1'] = True
        info['meta'] = meta
        return ty, target, where
    info['meta'] = meta or None
    for lvl in range(depth):
        outer_meta = None
        if lvl == depth - 1:
            outer_meta = dict(pol) if where == 'root' else {}
            outer_meta['v1'] = True
        outer = {'k': 'cls', 'info': {'name': nm('O'), 'fields': [{'name': 'inner_obj'}, {'name': 'num', 'dflt': ['lit', 0], 'factory': False}],
                                      'wizard': True, 'meta': outer_meta},
                 'ftys': [['inner_obj', ty], ['num', T('int')]]}
        ty = outer
    return ty, target, where


class _Records:
    """warnings the library logs while a load runs"""

    def __init__(self):
        import logging
        self.records = []
        outer = self

        class H(logging.Handler):
            def emit(self, record):
                outer.records.append(record)
        self.h = H(level=logging.WARNING)
        self.log = logging.getLogger('dataclass_wizard')

    def __enter__(self):
        import logging
        self.prev = (self.log.propagate, self.log.level)
        self.log.propagate = False
        self.log.setLevel(logging.WARNING)      # the library's default level (ERROR) mutes its own warnings
        self.log.addHandler(self.h)
        return self

    def __exit__(self, *a):
        self.log.removeHandler(self.h)
        self.log.propagate, lvl = self.prev
        self.log.setLevel(lvl)


def run_v1(ctx: C.Ctx):
    from dataclass_wizard import fromdict, asdict
    from dataclass_wizard.errors import UnknownKeysError, JSONWizardError
    rng = v1streams.sub_rng(ctx)
    gen.SUBS = False
    ctx.rule = ('v1 engine: policy in {ignore (unset / IGNORE), v1_on_unknown_key RAISE / WARN, CatchAll without default, CatchAll with default '
                '(None / default_factory)} declared on the class itself or cascading from the root × nesting depth 0..2 × tagged classes loaded '
                'directly with and without their tag key in the document × a set U of 0..3 extra keys (as in the default stream) × 1..3 repetitions '
                '× history (class first used by a load / first used by a dump of an instance built in code / reached through a second root class): '
                'outcome vs the specification (RAISE rejects iff U non-empty and names only unknown keys and the class; WARN logs and loads; '
                'catch-all holds exactly U in document order, never the tag key, else its default; to_dict writes U back), vs the Lean model of the '
                'v1 engine (op loadv1) and, for dump-first, vs the dump model. Non-trivial = distinct (class, document) with U non-empty.')
    n = ctx.quick(600, 7000)
    reqs, pend = [], []
    dreqs, dpend = [], []
    for j in range(n):
        i = v1streams.OFFSET + j
        if ctx.done(i):
            break
        nm = v1streams.Namer(j)
        policy = rng.choice(V1_POLICIES)
        depth = rng.choice([0, 0, 1, 2])
        ty, target, where = gen_case_v1(rng, policy, depth, nm)
        tinfo = target['info']
        catch = policy in ('catchall', 'catchall-default')
        history = 'load-first'
        if catch and rng.random() < 0.45:
            history = 'dump-first'
        elif catch and depth > 0 and rng.random() < 0.015:
            history = 'second-root'
        extra_src = ''
        if history == 'second-root':
            extra_src = ('@dataclass\nclass Second(JSONWizard):\n    class _(JSONWizard.Meta):\n        v1 = True\n'
                         f'    inner_obj: {tinfo["name"]}\n')
        try:
            built = model.Built(ty, extra_src=extra_src)
        except Exception as e:
            ctx.count('build_error')
            ctx.notes.setdefault('build_errors', []).append(repr(e)[:300])
            continue
        try:
            x = gen.gen_instance(rng, ty, built, use_defaults_prob=0.2)
            fnames = [f['name'] for f in tinfo['fields'] if not f.get('catch_all')]
            base = json.loads(json.dumps(plain_doc(x, ty, built)))
            inner_doc(base, depth).pop('extras_fld', None)
            tmeta = tinfo.get('meta') or {}
            tag_key = tmeta.get('tag_key') or '__tag__'
            has_tag = tmeta.get('tag') is not None
            if has_tag and rng.random() < 0.5:
                inner_doc(base, depth).pop(tag_key, None)
            k = rng.choice([0, 1, 1, 1, 2, 3])
            U = {}
            for key in rng.sample(EXTRA_POOL, k):
                if unknown_for(key, fnames) and not (has_tag and key == tag_key):
                    U[key] = rng.choice([1, 'v', None, [1, 2], {'a': 1}, True, 2.5])
            d = copy.deepcopy(base)
            tgt = inner_doc(d, depth)
            items = list(tgt.items())
            for key, v in U.items():
                items.insert(rng.randint(0, len(items)), (key, v))
            tgt.clear()
            tgt.update(items)
            reps = rng.choice([1, 2, 3])
            pre_pairs = {kk: rng.choice([1, 'v', None, [1, 2], {'a': 1}]) for kk in rng.sample(EXTRA_POOL, 2) if unknown_for(kk, fnames)}
            if not ctx.begin_case(i):
                continue
            # unchanged-code finding: a CatchAll field with default_factory is passed positionally, in the wrong slot as soon as a
            # defaulted field precedes it
            cfld = next((f for f in tinfo['fields'] if f.get('catch_all')), None)
            fkey = None
            if cfld is not None and cfld.get('factory') and any(f.get('dflt') is not None and not f.get('catch_all') for f in tinfo['fields']):
                fkey = 'v1-catchall-default-factory'
            case = {'ty': ty, 'doc': repr(d)[:500], 'policy': policy, 'depth': depth, 'U': repr(U), 'reps': reps, 'where': where,
                    'history': history, 'engine': 'v1', 'tag_in_doc': has_tag and tag_key in inner_doc(d, depth)}
            kind = 'unknown:v1:' + policy
            ctx.seen(kind, case, nontrivial=bool(U))
            src = dict(src=built.source)
            if history == 'dump-first':
                # an instance built in code is serialised before the class has ever been loaded
                ctx.count('v1:dump-first')
                inst = dig(x, depth)
                inst.extras_fld = dict(pre_pairs)
                try:
                    d0 = asdict(x)
                except Exception as e:
                    ctx.fail(kind + ':dump-first', case, f'asdict of an instance built in code raised {e!r}', detail=src)
                    d0 = None
                if d0 is not None:
                    t0 = d0
                    for _ in range(depth):
                        t0 = t0.get('innerObj', t0.get('inner_obj'))
                    for kk, vv in pre_pairs.items():
                        if kk not in t0 or not ref.same_typed(t0[kk], vv):
                            ctx.fail(kind + ':dump-first', case, f'first use of the class is a dump: to_dict dropped / changed the catch-all pair {kk!r}: {vv!r}; '
                                     f'got {t0!r}'[:800], detail=src)
                            break
                    try:
                        st0 = model.StdTables()
                        st0.add_py(x)
                        dreqs.append({'op': 'dump', 'inst': model.enc_py(x, built), 'std': st0.build(), 'exclude': None, 'skip_defaults': None})
                        dpend.append((case, {'ok': model.enc_d(d0)}))
                    except Exception:
                        ctx.count('v1:dump_not_encodable')
            if history == 'second-root':
                ctx.count('v1:second-root')
                first = load_outcome(lambda: fromdict(built.root, copy.deepcopy(d)))
                second = load_outcome(lambda: fromdict(built.get('Second'), {'inner_obj': copy.deepcopy(inner_doc(d, depth))}))
                if first[0] == 'ok' and (second[0] == 'err' or not ref.same_typed(second[1].inner_obj, dig(first[1], depth))):
                    key = 'v1-catchall-second-root' if second[0] == 'err' and not isinstance(second[1], JSONWizardError) else None
                    ctx.fail(kind + ':second-root', case, f'the same document part loads as {dig(first[1], depth)!r} through the first root class, '
                             f'but through a second root class gives {second[1]!r}'[:800], key=key, detail=src)
            with _Records() as rec:
                base_out = load_outcome(lambda: fromdict(built.root, copy.deepcopy(base)))
                n_base = len(rec.records)
                outs = []
                for _ in range(reps):
                    before = len(rec.records)
                    outs.append(load_outcome(lambda: fromdict(built.root, copy.deepcopy(d))))
                    if policy == 'warn' and base_out[0] == 'ok':
                        warned = len(rec.records) > before
                        if warned != bool(U):
                            ctx.fail(kind, case, f'WARN policy: unknown keys {sorted(U)}, a warning was {"" if warned else "not "}logged', detail=src)
                if policy == 'warn' and n_base:
                    ctx.fail(kind, case, 'WARN policy: a warning was logged for a document without unknown keys', detail=src)
            for rep, out in enumerate(outs, 1):
                nf = len(ctx.failures)
                check_v1(ctx, kind, case, rep, policy, out, base_out, U, depth, target, built, src, has_tag, tag_key, d, key=fkey)
                if fkey is not None and len(ctx.failures) > nf:
                    break          # a known finding: one record per case is enough
            if fkey is None:
                st = model.StdTables()
                st.add_json(d)
                reqs.append({'op': 'loadv1', 'ty': model.enc_ty(ty), 'doc': model.enc_j(d), 'std': st.build()})
                pend.append((case, outs[-1], built))
        finally:
            built.close()
    # ---- key case AUTO: a document that spells one field twice has no unknown key, yet `len(o) != i`
    for jj, policy in enumerate(['raise', 'catchall-default']):
        i = v1streams.OFFSET + n + jj
        if ctx.done(i):
            break
        nm = v1streams.Namer(n + jj)
        meta = {'v1': True, 'v1_key_case': 'AUTO'}
        fields = [{'name': 'my_field'}]
        ftys = [['my_field', T('int')]]
        if policy == 'raise':
            meta['v1_on_unknown_key'] = 'RAISE'
        else:
            fields.append({'name': 'extras_fld', 'catch_all': True, 'dflt': ['lit', None], 'factory': False})
            ftys.append(['extras_fld', T('any')])
        ty = {'k': 'cls', 'info': {'name': nm('A'), 'fields': fields, 'wizard': True, 'meta': meta}, 'ftys': ftys}
        built = model.Built(ty)
        try:
            if not ctx.begin_case(i):
                continue
            doc = {'my_field': 1, 'myField': 2}
            case = {'ty': ty, 'doc': repr(doc), 'engine': 'v1', 'probe': 'two-spellings', 'policy': policy}
            ctx.seen('unknown:v1:two-spellings', case)
            out = load_outcome(lambda: fromdict(built.root, dict(doc)))
            src = dict(src=built.source)
            if out[0] == 'err':
                e = out[1]
                key = 'v1-two-spellings-counted-once' if isinstance(e, UnknownKeysError) and not v1streams.unknown_keys_of(e) else None
                ctx.fail('unknown:v1:two-spellings', case, f'a document without unknown keys (one field spelled twice under key case AUTO) was rejected: '
                         f'{type(e).__name__} naming {getattr(e, "unknown_keys", None)!r}', key=key, detail=src)
            elif policy != 'raise' and out[1].extras_fld is not None:
                ctx.fail('unknown:v1:two-spellings', case, f'no unknown keys, yet the catch-all field holds {out[1].extras_fld!r} instead of its default None',
                         key='v1-two-spellings-counted-once' if out[1].extras_fld == {} else None, detail=src)
            st = model.StdTables()
            st.add_json(doc)
            reqs.append({'op': 'loadv1', 'ty': model.enc_ty(ty), 'doc': model.enc_j(doc), 'std': st.build()})
            pend.append((case, out, built))
        finally:
            built.close()
    if ctx.model_available:
        outs_m = ctx.driver.run(reqs)
        for (case, out, built), o_ in zip(pend, outs_m):
            compare_load(ctx, 'unknown:v1', case, out, o_, built)
        outs_d = ctx.driver.run(dreqs)
        for (case, impl), o in zip(dpend, outs_d):
            if 'err' in o and 'r' not in o:
                ctx.agree('unknown:v1:dump-model', case, impl, {'driver_error': o['err']})
                continue
            r = o['r']
            if model.has_miss(r):
                ctx.count('std_miss')
                continue
            ctx.agree('unknown:v1:dump-model', case, impl, {'ok': r['ok']} if 'ok' in r else {'err': r['err']})


def check_v1(ctx, kind, case, rep, policy, out, base_out, U, depth, target, built, src, has_tag, tag_key, d, key=None):
    from dataclass_wizard import asdict
    from dataclass_wizard.errors import UnknownKeysError
    tname = target['info']['name']
    if base_out[0] == 'err':
        ctx.fail(kind, case, f'the document without extra keys does not load: {type(base_out[1]).__name__}: {str(base_out[1])[:300]}', key=key, detail=src)
        return
    if policy == 'raise' and U:
        if out[0] == 'ok':
            ctx.fail(kind, case, f'call #{rep}: document with unknown key(s) {sorted(U)} was accepted under v1_on_unknown_key=RAISE', key=key, detail=src)
            return
        e = out[1]
        if not isinstance(e, UnknownKeysError):
            ctx.fail(kind, case, f'call #{rep}: expected UnknownKeysError, got {type(e).__name__}: {str(e)[:200]}', key=key, detail=src)
            return
        keys = v1streams.unknown_keys_of(e)
        if not keys or not set(keys) <= set(U):
            ctx.fail(kind, case, f'call #{rep}: UnknownKeysError names {keys!r}, the unknown keys of the document are {sorted(U)}', key=key, detail=src)
        if e.class_name != tname:
            ctx.fail(kind, case, f'call #{rep}: UnknownKeysError names class {e.class_name!r}, expected {tname!r}', key=key, detail=src)
        try:
            assert isinstance(str(e), str)
        except Exception as ee:
            ctx.fail(kind, case, f'str(UnknownKeysError) raised {ee!r}', key=key, detail=src)
        return
    if out[0] == 'err':
        e = out[1]
        extra = f' naming {v1streams.unknown_keys_of(e)!r}' if isinstance(e, UnknownKeysError) else ''
        ctx.fail(kind, case, f'call #{rep}: load raised {type(e).__name__}{extra}: {str(e)[:300]} (policy {policy}, unknown keys {sorted(U)})', key=key, detail=src)
        return
    y, yb = dig(out[1], depth), dig(base_out[1], depth)
    for f in target['info']['fields']:
        if f.get('catch_all'):
            continue
        if not ref.same_typed(getattr(y, f['name']), getattr(yb, f['name'])):
            ctx.fail(kind, case, f'call #{rep}: field {f["name"]} = {getattr(y, f["name"])!r} with extra keys, {getattr(yb, f["name"])!r} without', key=key, detail=src)
            return
    if policy in ('catchall', 'catchall-default'):
        got = y.extras_fld
        cf = next(f for f in target['info']['fields'] if f.get('catch_all'))
        if U:
            if not (isinstance(got, dict) and list(got.items()) == [(k, v) for k, v in _in_doc_order(U, d, depth)] and
                    all(ref.same_typed(got[k], U[k]) for k in U)):
                ctx.fail(kind, case, f'call #{rep}: catch-all field holds {got!r}, expected exactly {U!r}', key=key, detail=src)
                return
            back = asdict(out[1])
            tgt = back
            for _ in range(depth):
                tgt = tgt.get('innerObj', tgt.get('inner_obj'))
            for k, v in U.items():
                if k not in tgt or not ref.same_typed(tgt[k], v):
                    ctx.fail(kind, case, f'call #{rep}: to_dict(from_dict(d)) lost / changed unknown pair {k!r}: {v!r}; got {tgt!r}'[:800], key=key, detail=src)
                    return
        else:
            want = ref.dflt_value(cf['dflt']) if cf.get('dflt') is not None else {}
            if not ref.same_typed(got, want):
                ctx.fail(kind, case, f'call #{rep}: no unknown keys, catch-all field holds {got!r}, expected {want!r}', key=key, detail=src)
