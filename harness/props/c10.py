"""C10 — unknown keys are ignored, rejected or captured exactly as configured (default engine part)."""
from __future__ import annotations

import copy
import json
import re

from harness import common as C
from harness import gen, model, ref
from harness.model import T
from harness.props.c01 import compare_load, load_outcome
from harness.props.c05 import plain_doc
from harness.props import v1streams, reach, c10_dump

EXTRA_POOL = ['zzz', 'extra_key', 'extraKey', 'Extra-Key', 'X', 'unknown field', 'q1', '__other__', 'élan', 'a.b', 'x[0]', '',
              'ZZ_TOP', 'né', '1abc', 'with"quote', "it's", 'UPPER', 'tag', '__tag__x']


def normal_forms(k):
    s = k.replace('-', '_').replace(' ', '_')
    s2 = re.sub(r'((?!^)(?<!_)[A-Z][a-z]+|(?<=[a-z0-9])[A-Z])', r'_\1', s)
    return {k.lower(), s.lower(), s2.lower(), re.sub('_+', '_', s2.lower()), re.sub('_+', '_', s.lower())}


def unknown_for(key, field_names):
    low = {f.lower() for f in field_names}
    return not (normal_forms(key) & low) and key not in field_names


def gen_case(rng, policy, depth, where='own'):
    """`where` = 'root': the raise policy is declared in the Meta of the outermost class only and reaches the target through the cascade"""
    o = gen.Opts(meta_keys=[], meta_prob=0.0, allow_union=False, allow_nt=False, allow_td=False, allow_cls=False,
                 leaves=['int', 'str', 'bool', 'float', 'any'], containers=['list', 'dict'], max_fields=4, wizard_prob=0.7,
                 py_wizard_prob=0.0)
    ty = gen.gen_cls(rng, 1, o)
    info = ty['info']
    meta = {}
    if policy == 'raise' and where == 'own':
        meta['raise_on_unknown_json_key'] = True
    if rng.random() < 0.3:
        meta['key_transform_with_load'] = rng.choice(['SNAKE', 'CAMEL', 'NONE'])
    if rng.random() < 0.25:
        meta['tag'] = model.fresh('tg')
        if rng.random() < 0.5:
            meta['tag_key'] = rng.choice(['type', 'kind'])
    info['meta'] = meta or None
    if policy in ('catchall', 'catchall-default'):
        cf = {'name': 'extras_fld', 'catch_all': True}
        if policy == 'catchall-default':
            cf['dflt'] = ['lit', None] if rng.random() < 0.5 else ['dict']
            cf['factory'] = cf['dflt'][0] != 'lit'
            info['fields'].append(cf)
        else:
            # a field without default must precede defaulted ones
            idx = next((i for i, f in enumerate(info['fields']) if f.get('dflt') is not None), len(info['fields']))
            info['fields'].insert(idx, cf)
        ty['ftys'].append(['extras_fld', T('any')])
    # nest it `depth` levels down
    target = ty
    for lvl in range(depth):
        outer_meta = {'raise_on_unknown_json_key': True} if (policy == 'raise' and where == 'root' and lvl == depth - 1) else None
        outer = {'k': 'cls', 'info': {'name': model.fresh('O'), 'fields': [{'name': 'inner_obj'}, {'name': 'num', 'dflt': ['lit', 0], 'factory': False}],
                                      'wizard': True, 'meta': outer_meta},
                 'ftys': [['inner_obj', rng.choice([ty, T('list', ty)]) if False else ty], ['num', T('int')]]}
        ty = outer
    return ty, target


# --------------------------------------------------------------------------- multi-step histories: the same class seen from several sides
#
# A *view* of the target class is a way of reaching it: through the root of the case (nesting depth 0..2), through a second root class
# that nests it directly (with a Meta of its own, whose unknown-key policy may differ from the first root's), or on its own
# (fromdict(Target, ...)).  The library generates one load function per (root, nested class) and keeps per-class tables for ever, so the
# order in which the views are used is part of the input.  Every view is checked against the specification of *its* effective policy:
# the class's own setting wins, otherwise the setting of the root of that view, otherwise "ignore"; a CatchAll field captures in every view.

def plan_views(rng, depth, can_own=True):
    """extra views of the target and where they run relative to the case's own root: list of (view, 'before' | 'after')"""
    r = rng.random()
    kinds = ['second'] + (['own'] if depth > 0 and can_own else [])
    if r < 0.45:
        picked = []
    elif r < 0.85 or len(kinds) == 1:
        picked = [rng.choice(kinds)]
    else:
        picked = list(kinds)
        rng.shuffle(picked)
    return [(k, rng.choice(['before', 'after'])) for k in picked]


def draw_unknown(rng, fnames, has_tag, tag_key, counts=(0, 1, 1, 2, 3), exclude=()):
    k = rng.choice(counts)
    U = {}
    for key in rng.sample(EXTRA_POOL, k):
        v = rng.choice([1, 'v', None, [1, 2], {'a': 1}, True, 2.5])
        if unknown_for(key, fnames) and not (has_tag and key == tag_key) and key not in exclude:
            U[key] = v
    return U


TAG_KEY_SPELLINGS = ['type', 'kind', 'my tag']


def untagged_tag_key(trng, tinfo, p=0.35):
    """An UNTAGGED class may still state Meta.tag_key (it only says under which key tags of Union members travel); drawn from `trng`,
    a generator of its own.  Returns the tag key in force for the class."""
    tmeta = tinfo.get('meta') or {}
    if tmeta.get('tag') is None and trng.random() < p:
        tmeta = dict(tmeta, tag_key=trng.choice(TAG_KEY_SPELLINGS))
        tinfo['meta'] = tmeta
    return tmeta.get('tag_key') or '__tag__'


def add_tag_key_spelling(trng, U, has_tag, tag_key, fnames, p=0.3):
    """for a class WITHOUT a tag the tag key ('__tag__' or the Meta.tag_key in force) is a key like any other: when it maps to no
    field it is an unknown key — rejected under a raise policy, captured by a CatchAll field and written back, dropped otherwise"""
    if not has_tag and trng.random() < p and unknown_for(tag_key, fnames) and tag_key not in U:
        U[tag_key] = trng.choice(['t', 'Circle', 1, None, {'a': 1}])
    return U


def with_unknown(rng, inner, U):
    """the target's part of the document with the pairs of U inserted at random positions"""
    items = list(copy.deepcopy(inner).items())
    for key, v in U.items():
        items.insert(rng.randint(0, len(items)), (key, v))
    return dict(items)


def view_doc(view_depth, inner, outer_base=None, depth=0):
    """the document of a view: the target's part `inner` below `view_depth` levels of {'inner_obj': ...}"""
    if outer_base is not None:
        d = copy.deepcopy(outer_base)
        cur = d
        for _ in range(depth - 1):
            cur = cur['inner_obj']
        if depth:
            cur['inner_obj'] = inner
            return d
        return inner
    d = inner
    for _ in range(view_depth):
        d = {'inner_obj': d}
    return d


def second_root_src(name, tname, meta_lines):
    s = f'@dataclass\nclass {name}(JSONWizard):\n'
    if meta_lines:
        s += '    class _(JSONWizard.Meta):\n' + ''.join(f'        {ln}\n' for ln in meta_lines)
    return s + f'    inner_obj: {tname}\n    num: int = 0\n'


def inner_doc(doc, depth):
    cur = doc
    for _ in range(depth):
        cur = cur['inner_obj']
    return cur


# --------------------------------------------------------------------------- ownership: what the application does with the results
#
# DIMENSION the instances a load returns belong to the caller.  Between the loads of a case the application keeps every result it got and
# writes into the CatchAll mapping of some of them (annotates it, overwrites a captured value, removes a pair, empties it).  The property
# is about every single load: the CatchAll field of a result holds exactly the unknown pairs of ITS document -- whatever was loaded
# before and whatever happened to earlier results.  So (1) the mapping of a result is never the very object an earlier result of the case
# holds (same view or another view of the class, complete document or document with unknown keys), (2) every later load is judged by the
# ordinary check, and (3) at the end of the case every kept result still holds what it held when it was judged plus the application's
# own writes, nothing that leaked in from another load.

OWN_NOTES = ['reviewed_by', 'note', 'seen', '__mark__', 'zzz', 'n', 'extra_key', 'tag']


class Ownership:
    def __init__(self, orng):
        self.rng = orng
        self.kept = []          # (label, instance, mapping, expected items): instances are kept alive, so `is` is meaningful

    def took(self, ctx, kind, case, label, out, depth, src, key=None, keep_intact=False):
        """the application receives the (already judged) outcome of a load; `keep_intact`: it only holds on to it (the result that is
        compared with the Lean model afterwards)"""
        if out[0] != 'ok':
            return
        try:
            inst = dig(out[1], depth)
            m = inst.extras_fld
        except AttributeError:
            return
        if not isinstance(m, dict):
            return
        for lab2, _i2, m2, _e2 in self.kept:
            if m2 is m:
                ctx.fail(kind + ':ownership', dict(case, ownership=[k[0] for k in self.kept] + [label]),
                         f'{label}: the CatchAll mapping of this result is the very object held by the result of an earlier load ({lab2}): '
                         f'two instances share one mapping, a write to one shows in the other', key=key, detail=src)
                return
        rng = self.rng
        act = rng.choice(['write', 'write', 'write', 'write2', 'overwrite', 'pop', 'clear', 'none'])
        if keep_intact:
            act = 'none'
        if act in ('write', 'write2'):
            for kk in rng.sample(OWN_NOTES, 1 if act == 'write' else 2):
                m[kk] = rng.choice(['kim', 5, None, [1], {'a': 1}, True])
        elif act == 'overwrite' and m:
            m[rng.choice(sorted(m, key=repr))] = 'changed by the application'
        elif act == 'pop' and m:
            m.pop(rng.choice(sorted(m, key=repr)))
        elif act == 'clear':
            m.clear()
            m[rng.choice(OWN_NOTES)] = 1
        self.kept.append((f'{label} [{act}]', inst, m, list(m.items())))

    def settle(self, ctx, kind, case, src, key=None):
        """end of the case: nothing leaked into (or out of) a result the application holds"""
        for label, inst, m, want in self.kept:
            now = getattr(inst, 'extras_fld', None)
            if now is not m or list(m.items()) != want:
                ctx.fail(kind + ':ownership', dict(case, ownership=[k[0] for k in self.kept]),
                         f'{label}: after the later loads of the case the CatchAll field of this result holds {now!r}; it held {dict(want)!r} '
                         f'(the unknown pairs of its document and the application\'s own writes)'[:800], key=key, detail=src)
                return


REACH_OFFSET = 30_000_000


def run(ctx: C.Ctx):
    if ctx.only is None or ctx.only < REACH_OFFSET:
        v1streams.run_streams(ctx, run_default, run_v1)
    if ctx.only is None or REACH_OFFSET <= ctx.only < c10_dump.OFFSET:
        # third stream: the class that receives the unknown keys is reached through a tagged Union / a TypedDict value / ...
        run_reach(ctx)
    if ctx.only is None or c10_dump.OFFSET <= ctx.only < 700_000_000:
        # fourth stream: the write-back clause under the dump-side settings of the class (Meta.skip_if / skip_defaults_if / ...)
        c10_dump.run(ctx)
    # the dump side of this property (catch-all items written back at top level / the tag entry) at the level of the generated
    # code: generator model text == generated source, Lean interpreter of that text == the real result (harness/props/c11_gencode.py)
    from . import c11_gencode
    c11_gencode.run(ctx)


def run_default(ctx: C.Ctx):
    import random
    from dataclass_wizard import fromdict, asdict
    from dataclass_wizard.errors import UnknownKeysError
    rng = ctx.rng
    gen.SUBS = False
    ctx.rule = ('policy in {ignore, raise (declared on the class itself or cascading from the root), catch-all, catch-all with default} × nesting '
                'depth 0..2 × a complete document plus a set U of 0..3 extra keys none of whose casing-normalisations reaches a field (near-miss '
                'spellings, non-identifiers, the tag key of tagged classes; for UNTAGGED classes — with or without a Meta.tag_key of their own — '
                'also a key spelled exactly like the tag key in force, which is then an unknown key like any other) × the same call repeated 1..3 times × multi-step history over views of '
                'the same class (through the case root, through a second root class with or without a raise policy of its own, loaded on its own; '
                'before or after one another, each view with its own U and judged by the policy effective in that view) × for CatchAll classes what the application does with the results between the loads (keeps them all; annotates / overwrites / pops / empties the CatchAll mapping of earlier results: no two results share one mapping, later loads hold exactly their own U, kept results are unchanged at the end), default engine: outcome '
                'vs the specification, vs the Lean model, and to_dict(from_dict(d)) for catch-all. Non-trivial = distinct (class, document) with U non-empty.')
    n = ctx.quick(700, 8000)
    reqs, pend = [], []
    for i in range(n):
        if ctx.done(i):
            break
        policy = rng.choice(['ignore', 'raise', 'raise', 'catchall', 'catchall-default'])
        depth = rng.choice([0, 0, 1, 2])
        catch = policy in ('catchall', 'catchall-default')
        where = 'root' if policy == 'raise' and depth > 0 and rng.random() < 0.5 else 'own'
        ty, target = gen_case(rng, policy, depth, where)
        trng = random.Random(f'{ctx.prop_id}:{ctx.seed}:tag-key-spelling:{i}')
        untagged_tag_key(trng, target['info'])
        plan = plan_views(rng, depth)
        sec_raise = (not catch) and rng.random() < 0.5
        sec_name = model.fresh('S')
        extra_src = ''
        if any(k == 'second' for k, _ in plan):
            extra_src = second_root_src(sec_name, target['info']['name'], ['raise_on_unknown_json_key = True'] if sec_raise else [])
        try:
            built = model.Built(ty, extra_src=extra_src)
        except Exception as e:
            ctx.count('build_error')
            ctx.notes.setdefault('build_errors', []).append(repr(e)[:300])
            continue
        try:
            x = gen.gen_instance(rng, ty, built, use_defaults_prob=0.2)
            tinfo = target['info']
            fnames = [f['name'] for f in tinfo['fields'] if not f.get('catch_all')]
            base = json.loads(json.dumps(plain_doc(x, ty, built)))
            # plain_doc emits the catch-all field under its own name: remove it (it is never a document key)
            inner_doc(base, depth).pop('extras_fld', None)
            tmeta = tinfo.get('meta') or {}
            tag_key = tmeta.get('tag_key') or '__tag__'
            has_tag = tmeta.get('tag') is not None
            if has_tag and rng.random() < 0.5:
                inner_doc(base, depth).pop(tag_key, None)
            # ---- the views in execution order, each with its effective policy and its own set of unknown keys
            own_raise = policy == 'raise' and where == 'own'
            views = [dict(view='root', cls=None, depth=depth, policy=policy, pos='primary')]
            for kind_v, pos in plan:
                if kind_v == 'second':
                    pol_v = policy if catch else ('raise' if own_raise or sec_raise else 'ignore')
                    v = dict(view='second', cls=sec_name, depth=1, policy=pol_v, pos=pos)
                else:
                    pol_v = policy if catch else ('raise' if own_raise else 'ignore')
                    v = dict(view='own', cls=tinfo['name'], depth=0, policy=pol_v, pos=pos)
                if pos == 'before':
                    views.insert(next(ix for ix, w in enumerate(views) if w['pos'] == 'primary'), v)
                else:
                    views.append(v)
            # (Until repairs 7fd7207 / ade1ea0 a view under a raise policy never received a key that an earlier view of the same class had
            # presented under "ignore": the lenient function cached such keys where the strict one read them.  The restriction is lifted;
            # findings/ignored-key-cache-defeats-cascaded-raise.py is the directed regression.)
            ignored_before = set()
            inner_base = inner_doc(base, depth)
            for v in views:
                v['U'] = add_tag_key_spelling(trng, draw_unknown(rng, fnames, has_tag, tag_key, exclude=()), has_tag, tag_key, fnames)
                if v['policy'] == 'ignore':
                    ignored_before |= set(v['U'])
                inner_u = with_unknown(rng, inner_base, v['U'])
                if v['view'] == 'root':
                    v['base'], v['doc'] = base, view_doc(depth, inner_u, base, depth)
                else:
                    v['base'], v['doc'] = view_doc(v['depth'], copy.deepcopy(inner_base)), view_doc(v['depth'], inner_u)
                v['reps'] = rng.choice([1, 2, 3]) if v['view'] == 'root' else rng.choice([1, 1, 2])
            prim = next(v for v in views if v['view'] == 'root')
            U, d, reps = prim['U'], prim['doc'], prim['reps']
            if not ctx.begin_case(i):
                continue
            hist = [v['view'] for v in views]
            case = {'ty': ty, 'doc': repr(d)[:500], 'policy': policy, 'depth': depth, 'U': repr(U), 'reps': reps, 'where': where,
                    'history': [[v['view'], v['policy'], sorted(v['U'])] for v in views], 'second_root_raises': sec_raise}
            ctx.seen('unknown:' + policy, case, nontrivial=bool(U))
            if len(views) > 1:
                ctx.count('history:' + '>'.join(hist))
            src = dict(src=built.source)
            outs = None
            # ---- what the application does with the results between the loads (own generator; CatchAll classes only)
            orng = random.Random(f'{ctx.prop_id}:{ctx.seed}:ownership:{i}')
            own = Ownership(orng) if catch and orng.random() < 0.6 else None
            if own is not None:
                case['application_writes'] = True
                ctx.count('ownership')
            for v in views:
                cls_v = built.root if v['cls'] is None else built.get(v['cls'])
                case_v = case if v['view'] == 'root' else dict(case, view=v['view'], view_doc=repr(v['doc'])[:500], view_policy=v['policy'],
                                                               step=f'{views.index(v) + 1} of {">".join(hist)}')
                base_out_v = load_outcome(lambda: fromdict(cls_v, copy.deepcopy(v['base'])))
                if own is None:
                    outs_v = [load_outcome(lambda: fromdict(cls_v, copy.deepcopy(v['doc']))) for _ in range(v['reps'])]
                    for rep, out in enumerate(outs_v, 1):
                        check(ctx, case_v, rep, v['policy'], out, base_out_v, v['U'], v['depth'], target, built, src, has_tag, tag_key, v['doc'])
                else:
                    # every outcome is judged right after its load and then handed to the application (see Ownership)
                    label = f'step {views.index(v) + 1} ({v["view"]} view): '
                    own.took(ctx, 'unknown:' + policy, case_v, label + 'complete document', base_out_v, v['depth'], src)
                    outs_v = []
                    for rep in range(1, v['reps'] + 1):
                        outs_v.append(load_outcome(lambda: fromdict(cls_v, copy.deepcopy(v['doc']))))
                        nf = len(ctx.failures)
                        check(ctx, case_v, rep, v['policy'], outs_v[-1], base_out_v, v['U'], v['depth'], target, built, src, has_tag, tag_key, v['doc'])
                        if len(ctx.failures) == nf:
                            own.took(ctx, 'unknown:' + policy, case_v, label + f'load #{rep} with unknown keys {sorted(v["U"])}', outs_v[-1],
                                     v['depth'], src, keep_intact=v['view'] == 'root' and rep == v['reps'])
                if v['view'] == 'root':
                    outs = outs_v
            if own is not None:
                own.settle(ctx, 'unknown:' + policy, case, src)
            st = model.StdTables()
            st.add_json(d)
            reqs.append({'op': 'load', 'ty': model.enc_ty(ty), 'doc': model.enc_j(d), 'std': st.build()})
            pend.append((case, outs[-1], built))
        finally:
            built.close()
    if ctx.model_available:
        outs_m = ctx.driver.run(reqs)
        for (case, out, built), o_ in zip(pend, outs_m):
            compare_load(ctx, 'unknown', case, out, o_, built)


def dig(y, depth):
    for _ in range(depth):
        y = y.inner_obj
    return y


def check(ctx, case, rep, policy, out, base_out, U, depth, target, built, src, has_tag, tag_key, d):
    from dataclass_wizard import asdict
    from dataclass_wizard.errors import UnknownKeysError
    kind = 'unknown:' + policy
    tname = target['info']['name']
    if base_out[0] == 'err':
        return     # the complete document itself does not load (not this property's business)
    if policy == 'raise' and U:
        if out[0] == 'ok':
            ctx.fail(kind, case, f'call #{rep}: document with unknown key(s) {sorted(U)} was accepted under raise_on_unknown_json_key', detail=src)
            return
        e = out[1]
        if not isinstance(e, UnknownKeysError):
            ctx.fail(kind, case, f'call #{rep}: expected UnknownKeysError, got {type(e).__name__}: {str(e)[:200]}', detail=src)
            return
        keys = [e.unknown_keys] if isinstance(e.unknown_keys, str) else list(e.unknown_keys)
        if not keys or not set(keys) <= set(U):
            ctx.fail(kind, case, f'call #{rep}: UnknownKeysError names {keys!r}, the unknown keys of the document are {sorted(U)}', detail=src)
        if e.class_name != tname:
            ctx.fail(kind, case, f'call #{rep}: UnknownKeysError names class {e.class_name!r}, expected {tname!r}', detail=src)
        try:
            str(e)
        except Exception as ee:
            ctx.fail(kind, case, f'str(UnknownKeysError) raised {ee!r}', detail=src)
        return
    if out[0] == 'err':
        ctx.fail(kind, case, f'call #{rep}: load raised {type(out[1]).__name__}: {str(out[1])[:300]} (policy {policy}, unknown keys {sorted(U)})', detail=src)
        return
    y, yb = dig(out[1], depth), dig(base_out[1], depth)
    # mapped fields unaffected
    for f in target['info']['fields']:
        if f.get('catch_all'):
            continue
        if not ref.same_typed(getattr(y, f['name']), getattr(yb, f['name'])):
            ctx.fail(kind, case, f'call #{rep}: field {f["name"]} = {getattr(y, f["name"])!r} with extra keys, {getattr(yb, f["name"])!r} without', detail=src)
            return
    if policy in ('catchall', 'catchall-default'):
        got = y.extras_fld
        cf = next(f for f in target['info']['fields'] if f.get('catch_all'))
        if U:
            if not (isinstance(got, dict) and list(got.items()) == [(k, v) for k, v in _in_doc_order(U, d, depth)] and
                    all(ref.same_typed(got[k], U[k]) for k in U)):
                ctx.fail(kind, case, f'call #{rep}: catch-all field holds {got!r}, expected exactly {U!r}', detail=src)
                return
            back = asdict(out[1])
            tgt = back
            for _ in range(depth):
                tgt = tgt.get('innerObj', tgt.get('inner_obj'))
            for k, v in U.items():
                if k not in tgt or not ref.same_typed(tgt[k], v):
                    ctx.fail(kind, case, f'call #{rep}: to_dict(from_dict(d)) lost / changed unknown pair {k!r}: {v!r}; got {tgt!r}'[:800], detail=src)
                    return
        else:
            want = ref.dflt_value(cf['dflt']) if cf.get('dflt') is not None else {}
            if not ref.same_typed(got, want):
                ctx.fail(kind, case, f'call #{rep}: no unknown keys, catch-all field holds {got!r}, expected {want!r}', detail=src)


def _in_doc_order(U, d, depth):
    tgt = inner_doc(d, depth)
    return [(k, tgt[k]) for k in tgt if k in U]


# --------------------------------------------------------------------------- v1 engine

V1_POLICIES = ['ignore', 'ignore-explicit', 'raise', 'raise', 'warn', 'catchall', 'catchall', 'catchall-default', 'catchall-default']


def gen_case_v1(rng, policy, depth, nm):
    """(root type, target type, where the policy is declared, facts): the target carries `policy` either in its own Meta or — when nested —
    through the ROOT's Meta (cascade); the root is always bound to the v1 engine.  `facts` = {'own_setting', 'root_setting', 'can_own'}:
    the v1_on_unknown_key value the target / the root declares, and whether the target can be loaded on its own by the v1 engine
    (its own Meta says v1 = True)"""
    o = gen.Opts(meta_keys=[], meta_prob=0.0, allow_union=False, allow_nt=False, allow_td=False, allow_cls=False,
                 leaves=['int', 'str', 'bool', 'float', 'any'], containers=['list', 'dict'], max_fields=4, wizard_prob=0.7,
                 py_wizard_prob=0.0)
    ty = gen.gen_cls(rng, 1, o, name=nm('T'))
    info = ty['info']
    pol = {}
    if policy == 'raise':
        pol['v1_on_unknown_key'] = 'RAISE'
    elif policy == 'warn':
        pol['v1_on_unknown_key'] = 'WARN'
    elif policy == 'ignore-explicit':
        pol['v1_on_unknown_key'] = 'IGNORE'
    where = 'own' if depth == 0 or rng.random() < 0.6 else 'root'
    meta = dict(pol) if where == 'own' else {}
    if rng.random() < 0.2:
        (meta if where == 'own' else pol)['v1_key_case'] = 'AUTO'
    if rng.random() < 0.4:
        meta['tag'] = nm('tg')
        if rng.random() < 0.5:
            meta['tag_key'] = rng.choice(['type', 'kind'])
    # a nested target may declare v1 = True itself (then it can also be loaded on its own by the v1 engine)
    can_own = depth > 0 and rng.random() < 0.5
    if can_own:
        meta['v1'] = True
    # auto_assign_tags: the first dump of such a class re-generates its load function (load → dump → load histories)
    root_extra = {}
    if rng.random() < 0.15:
        (meta if (depth == 0 or can_own) else root_extra)['auto_assign_tags'] = True
    # ---- several load aliases for one key: Alias('a', 'b') / Alias(load=(...)) / Meta.v1_field_to_alias
    plain = [f for f in info['fields']]
    if plain and rng.random() < 0.4:
        styles = ['all', 'load'] + (['meta'] if (depth == 0 or can_own) else [])
        used = {f['name'] for f in plain}
        for f in rng.sample(plain, min(len(plain), rng.choice([1, 1, 2]))):
            n = f['name']
            cands = [n + '_alt', v1streams.camel(n) + 'X', n.upper(), 'k-' + v1streams.kebab(n), n + ' 2', 'the.' + n, n + '0']
            keys = [k for k in rng.sample(cands, rng.choice([1, 2, 2, 3, 3])) if k not in used]
            if not keys:
                continue
            used |= set(keys)
            f['load_keys'] = keys
            f['v1_alias'] = rng.choice(styles)
            if f['v1_alias'] in ('all', 'meta'):
                f['dump_all'] = True
        m_al = {f['name']: tuple(f['load_keys']) for f in plain if f.get('v1_alias') == 'meta'}
        if m_al:
            meta['v1_field_to_alias'] = m_al
    if policy in ('catchall', 'catchall-default'):
        cf = {'name': 'extras_fld', 'catch_all': True}
        nf = len(info['fields'])
        if policy == 'catchall-default':
            cf['dflt'] = ['lit', None] if rng.random() < 0.98 else ['dict']
            cf['factory'] = cf['dflt'][0] != 'lit'
            # any position after the last field without a default
            lo = max([ix + 1 for ix, f in enumerate(info['fields']) if f.get('dflt') is None], default=0)
            info['fields'].insert(rng.randint(lo, nf), cf)
        else:
            # a field without default must precede defaulted ones: any position up to the first defaulted field
            idx = next((i for i, f in enumerate(info['fields']) if f.get('dflt') is not None), nf)
            info['fields'].insert(rng.randint(0, idx), cf)
        ty['ftys'].append(['extras_fld', T('any')])
    target = ty
    facts = {'own_setting': pol.get('v1_on_unknown_key') if where == 'own' else None,
             'root_setting': pol.get('v1_on_unknown_key') if where == 'root' else None, 'can_own': can_own}
    if depth == 0:
        meta['v1'] = True
        info['meta'] = meta
        return ty, target, where, facts
    info['meta'] = meta or None
    for lvl in range(depth):
        outer_meta = None
        if lvl == depth - 1:
            outer_meta = dict(pol) if where == 'root' else {}
            outer_meta.update(root_extra)
            outer_meta['v1'] = True
        outer = {'k': 'cls', 'info': {'name': nm('O'), 'fields': [{'name': 'inner_obj'}, {'name': 'num', 'dflt': ['lit', 0], 'factory': False}],
                                      'wizard': True, 'meta': outer_meta},
                 'ftys': [['inner_obj', ty], ['num', T('int')]]}
        ty = outer
    return ty, target, where, facts


# ---- how the policy is written down: spelling of the value x the Meta it arrives through
#
# v1_on_unknown_key is documented as a KeyAction member or its name as a string (any letter case: the library upper-cases strings
# before the lookup).  It can stand in the class's first Meta (the inner Meta of a JSONWizard class, or the Meta bound to a plain
# dataclass), or arrive later through LoadMeta(v1_on_unknown_key=..).bind_to(cls) on a class that already has a Meta — its inner one, or
# an earlier DumpMeta / LoadMeta binding.  Every combination declares the same policy, so the outcome must not depend on it.

POLICY_FORMS = ['inner-str', 'inner-lower', 'inner-enum', 'late-str', 'late-str', 'late-lower', 'late-lower', 'late-enum']
PRIOR_BINDINGS = ['DumpMeta(skip_defaults=False)', 'LoadMeta(raise_on_unknown_json_key=False)', "DumpMeta(marshal_date_time_as='ISO_FORMAT')"]


class RawSrc(str):
    """a Meta value that is rendered into the class source as an expression (an Enum member) and encoded for the model as its name"""

    def __new__(cls, value, src):
        o = super().__new__(cls, value)
        o.src = src
        return o

    def __repr__(self):
        return self.src

    def __reduce__(self):
        return (RawSrc, (str.__str__(self), self.src))


def _find_cls(t, name):
    if t['k'] == 'cls':
        if t['info']['name'] == name:
            return t
        for _n, ft in t['ftys']:
            r = _find_cls(ft, name)
            if r is not None:
                return r
        return None
    for m in t.get('a', []):
        r = _find_cls(m, name)
        if r is not None:
            return r
    return None


def apply_policy_form(frng, ty, cls_name, form, key='v1_on_unknown_key'):
    """(type to BUILD, source to append): a copy of `ty` in which class `cls_name` states its `key` setting in the given form; `ty`
    itself — what the reference and the model are told — keeps the plain declaration"""
    bty = copy.deepcopy(ty)
    node = _find_cls(bty, cls_name)
    meta = node['info']['meta']
    val = meta[key]
    where_, spelling = form.split('-')
    spelled = {'str': val, 'lower': val.lower(),
               'enum': RawSrc(val, f"__import__('dataclass_wizard.v1.enums', fromlist=['KeyAction']).KeyAction.{val}")}[spelling]
    if where_ == 'inner':
        meta[key] = spelled
        return bty, ''
    del meta[key]
    src = ''
    if not meta:
        # no first Meta is left: the class gets an earlier binding of another kind — or none (then the late one is its first Meta)
        node['info']['meta'] = None
        prior = frng.choice(PRIOR_BINDINGS + [None])
    else:
        prior = frng.choice(PRIOR_BINDINGS + [None, None, None])
    if prior:
        src += f'{prior}.bind_to({cls_name})\n'
    src += f'LoadMeta({key}={spelled!r}).bind_to({cls_name})\n'
    return bty, src


def v1_eff_policy(policy, catch, own_setting, root_setting):
    """the policy in force for the target in a view: a CatchAll field captures everywhere; otherwise the class's own v1_on_unknown_key wins,
    else the one of the view's root, else unknown keys are dropped"""
    if catch:
        return policy
    return {'RAISE': 'raise', 'WARN': 'warn', 'IGNORE': 'ignore-explicit', None: 'ignore'}[own_setting or root_setting]


def respell(rng, inner, tinfo):
    """the target's part of a document with every aliased field spelled by ONE of its load aliases (chosen at random)"""
    ren = {f['name']: rng.choice(f['load_keys']) for f in tinfo['fields'] if f.get('v1_alias') and f.get('load_keys')}
    return {ren.get(k, k): copy.deepcopy(v) for k, v in inner.items()}


class _Records:
    """warnings the library logs while a load runs"""

    def __init__(self):
        import logging
        self.records = []
        outer = self

        class H(logging.Handler):
            def emit(self, record):
                outer.records.append(record)
        self.h = H(level=logging.WARNING)
        self.log = logging.getLogger('dataclass_wizard')

    def __enter__(self):
        import logging
        self.prev = (self.log.propagate, self.log.level)
        self.log.propagate = False
        self.log.setLevel(logging.WARNING)      # the library's default level (ERROR) mutes its own warnings
        self.log.addHandler(self.h)
        return self

    def __exit__(self, *a):
        self.log.removeHandler(self.h)
        self.log.propagate, lvl = self.prev
        self.log.setLevel(lvl)


def eval_view_v1(ctx, kind, case, cls_v, v, target, built, src, has_tag, tag_key, fkey, dump_between, own=None, label=''):
    """load the view's complete document, then its document with unknown keys `reps` times (optionally dumping every loaded instance
    before the next load), and judge every outcome by the policy in force in this view.  With `own` (see Ownership) every outcome is
    judged right after its load and then handed to the application, which may write into its CatchAll mapping before the next load."""
    from dataclass_wizard import fromdict, asdict
    policy, U = v['policy'], v['U']

    def judge(rep, out):
        check_v1(ctx, kind, case, rep, policy, out, base_out, U, v['depth'], target, built, src, has_tag, tag_key, v['doc'], key=fkey)
    with _Records() as rec:
        base_out = load_outcome(lambda: fromdict(cls_v, copy.deepcopy(v['base'])))
        n_base = len(rec.records)
        if own is not None:
            own.took(ctx, kind, case, f'{label}complete document', base_out, v['depth'], src)
        outs = []
        for _ in range(v['reps']):
            before = len(rec.records)
            outs.append(load_outcome(lambda: fromdict(cls_v, copy.deepcopy(v['doc']))))
            if policy == 'warn' and base_out[0] == 'ok':
                warned = len(rec.records) > before
                if warned != bool(U):
                    ctx.fail(kind, case, f'WARN policy: unknown keys {sorted(U)}, a warning was {"" if warned else "not "}logged', detail=src)
            if own is not None:
                nf = len(ctx.failures)
                judge(len(outs), outs[-1])
                if len(ctx.failures) == nf:
                    own.took(ctx, kind, case, f'{label}load #{len(outs)} with unknown keys {sorted(U)}', outs[-1], v['depth'], src,
                             keep_intact=v['view'] == 'root' and len(outs) == v['reps'])
            if dump_between and outs[-1][0] == 'ok':
                try:
                    asdict(outs[-1][1])
                except Exception as e:
                    ctx.fail(kind, case, f'to_dict of the loaded instance raised {e!r}'[:600], key=fkey, detail=src)
        if policy == 'warn' and n_base:
            ctx.fail(kind, case, 'WARN policy: a warning was logged for a document without unknown keys', detail=src)
    if own is not None:
        return outs
    for rep, out in enumerate(outs, 1):
        nf = len(ctx.failures)
        judge(rep, out)
        if fkey is not None and len(ctx.failures) > nf:
            break          # a known finding: one record per case is enough
    return outs


def run_v1(ctx: C.Ctx):
    import random
    from dataclass_wizard import fromdict, asdict
    from dataclass_wizard.errors import UnknownKeysError, JSONWizardError
    rng = v1streams.sub_rng(ctx)
    gen.SUBS = False
    ctx.rule = ('v1 engine: policy in {ignore (unset / IGNORE), v1_on_unknown_key RAISE / WARN, CatchAll without default, CatchAll with default '
                '(None / default_factory)} declared on the class itself or cascading from the root × nesting depth 0..2 × tagged classes loaded '
                'directly with and without their tag key in the document × a set U of 0..3 extra keys (as in the default stream) × 1..3 repetitions '
                '× the way the policy is written down (KeyAction member / its name in upper or lower case; in the first Meta of the class, or '
                'added by a later LoadMeta(..).bind_to on a class that has an inner Meta or an earlier DumpMeta / LoadMeta binding) '
                '× history (class first used by a load / first used by a dump of an instance built in code / reached through a second root class) × for CatchAll classes the application writing into the CatchAll mappings of earlier results between the loads (ownership, as in the default stream): '
                'outcome vs the specification (RAISE rejects iff U non-empty and names only unknown keys and the class; WARN logs and loads; '
                'catch-all holds exactly U in document order, never the tag key, else its default; to_dict writes U back), vs the Lean model of the '
                'v1 engine (op loadv1) and, for dump-first, vs the dump model. Non-trivial = distinct (class, document) with U non-empty.')
    n = ctx.quick(600, 7000)
    reqs, pend = [], []
    dreqs, dpend = [], []
    for j in range(n):
        i = v1streams.OFFSET + j
        if ctx.done(i):
            break
        nm = v1streams.Namer(j)
        policy = rng.choice(V1_POLICIES)
        depth = rng.choice([0, 0, 1, 2])
        ty, target, where, facts = gen_case_v1(rng, policy, depth, nm)
        tinfo = target['info']
        trng = random.Random(f'{ctx.prop_id}:{ctx.seed}:v1:tag-key-spelling:{j}')
        if depth == 0 or facts['can_own']:
            untagged_tag_key(trng, tinfo)       # (a nested class takes tag_key from the main class: own Meta only where it is complete)
        catch = policy in ('catchall', 'catchall-default')
        history = 'load-first'
        if catch and rng.random() < 0.45:
            history = 'dump-first'
        elif catch and depth > 0 and rng.random() < 0.015:
            history = 'second-root'
        extra_src = ''
        if history == 'second-root':
            extra_src = ('@dataclass\nclass Second(JSONWizard):\n    class _(JSONWizard.Meta):\n        v1 = True\n'
                         f'    inner_obj: {tinfo["name"]}\n')
        # ---- multi-step history over views of the target (see plan_views)
        plan = plan_views(rng, depth, can_own=facts['can_own'])
        sec_setting = None if catch else rng.choice([None, None, 'RAISE', 'WARN'])
        sec_name = nm('S')
        dump_between = rng.random() < 0.3
        if any(kv == 'second' for kv, _ in plan):
            extra_src += second_root_src(sec_name, tinfo['name'], ['v1 = True'] + ([f'v1_on_unknown_key = {sec_setting!r}'] if sec_setting else []))
        # ---- how the policy is written down (own generator: the class models of the stream stay what they were)
        frng = random.Random(f'{ctx.prop_id}:{ctx.seed}:v1:policy-form:{j}')
        bty, form = ty, None
        if policy in ('raise', 'warn', 'ignore-explicit'):
            form = frng.choice(POLICY_FORMS)
            decl = tinfo['name'] if where == 'own' else ty['info']['name']
            bty, form_src = apply_policy_form(frng, ty, decl, form)
            extra_src += form_src
        try:
            built = model.Built(bty, extra_src=extra_src)
        except Exception as e:
            ctx.count('build_error')
            ctx.notes.setdefault('build_errors', []).append(repr(e)[:300])
            continue
        try:
            x = gen.gen_instance(rng, ty, built, use_defaults_prob=0.2)
            aliased = [f for f in tinfo['fields'] if f.get('v1_alias') and f.get('load_keys')]
            fnames = [f['name'] for f in tinfo['fields'] if not f.get('catch_all')] + [k for f in aliased for k in f['load_keys']]
            base = json.loads(json.dumps(plain_doc(x, ty, built)))
            inner_doc(base, depth).pop('extras_fld', None)
            tmeta = tinfo.get('meta') or {}
            tag_key = tmeta.get('tag_key') or '__tag__'
            has_tag = tmeta.get('tag') is not None
            if has_tag and rng.random() < 0.5:
                inner_doc(base, depth).pop(tag_key, None)
            views = [dict(view='root', cls=None, depth=depth, policy=policy, pos='primary')]
            for kind_v, pos in plan:
                if kind_v == 'second':
                    v = dict(view='second', cls=sec_name, depth=1, pos=pos,
                             policy=v1_eff_policy(policy, catch, facts['own_setting'], sec_setting))
                else:
                    v = dict(view='own', cls=tinfo['name'], depth=0, pos=pos, policy=v1_eff_policy(policy, catch, facts['own_setting'], None))
                if pos == 'before':
                    views.insert(next(ix for ix, w in enumerate(views) if w['pos'] == 'primary'), v)
                else:
                    views.append(v)
            inner_base = inner_doc(base, depth)
            for v in views:
                v['U'] = add_tag_key_spelling(trng, draw_unknown(rng, fnames, has_tag, tag_key, counts=(0, 1, 1, 1, 2, 3)), has_tag, tag_key, fnames)
                inner_b = respell(rng, inner_base, tinfo)
                inner_u = with_unknown(rng, respell(rng, inner_base, tinfo), v['U'])
                if v['view'] == 'root':
                    v['base'], v['doc'] = view_doc(depth, inner_b, base, depth), view_doc(depth, inner_u, base, depth)
                else:
                    v['base'], v['doc'] = view_doc(v['depth'], inner_b), view_doc(v['depth'], inner_u)
                v['reps'] = rng.choice([1, 2, 3]) if v['view'] == 'root' else rng.choice([1, 1, 2])
            prim = next(v for v in views if v['view'] == 'root')
            U, d, reps = prim['U'], prim['doc'], prim['reps']
            pre_pairs = {kk: rng.choice([1, 'v', None, [1, 2], {'a': 1}]) for kk in rng.sample(EXTRA_POOL, 2) if unknown_for(kk, fnames)}
            if not ctx.begin_case(i):
                continue
            # unchanged-code finding: a CatchAll field with default_factory is passed positionally, in the wrong slot as soon as a
            # defaulted field precedes it
            cfld = next((f for f in tinfo['fields'] if f.get('catch_all')), None)
            fkey = None
            if cfld is not None and cfld.get('factory') and any(f.get('dflt') is not None and not f.get('catch_all') for f in tinfo['fields']):
                fkey = 'v1-catchall-default-factory'
            hist = [v['view'] for v in views]
            case = {'ty': ty, 'doc': repr(d)[:500], 'policy': policy, 'depth': depth, 'U': repr(U), 'reps': reps, 'where': where,
                    'history': history, 'engine': 'v1', 'tag_in_doc': has_tag and tag_key in inner_doc(d, depth),
                    'views': [[v['view'], v['policy'], sorted(v['U'])] for v in views], 'second_root_setting': sec_setting,
                    'dump_between_loads': dump_between}
            if form is not None:
                case['policy_form'] = form
                ctx.count('v1:policy-form:' + form)
            kind = 'unknown:v1:' + policy
            ctx.seen(kind, case, nontrivial=bool(U))
            # ---- what the application does with the results between the loads (own generator; CatchAll classes only)
            orng = random.Random(f'{ctx.prop_id}:{ctx.seed}:v1:ownership:{j}')
            own = Ownership(orng) if catch and fkey is None and orng.random() < 0.6 else None
            if own is not None:
                case['application_writes'] = True
                ctx.count('v1:ownership')
            if len(views) > 1:
                ctx.count('v1:history:' + '>'.join(hist))
            if aliased:
                ctx.count('v1:aliased')
            src = dict(src=built.source)
            if history == 'dump-first':
                # an instance built in code is serialised before the class has ever been loaded
                ctx.count('v1:dump-first')
                inst = dig(x, depth)
                inst.extras_fld = dict(pre_pairs)
                try:
                    d0 = asdict(x)
                except Exception as e:
                    ctx.fail(kind + ':dump-first', case, f'asdict of an instance built in code raised {e!r}', detail=src)
                    d0 = None
                if d0 is not None:
                    t0 = d0
                    for _ in range(depth):
                        t0 = t0.get('innerObj', t0.get('inner_obj'))
                    for kk, vv in pre_pairs.items():
                        if kk not in t0 or not ref.same_typed(t0[kk], vv):
                            ctx.fail(kind + ':dump-first', case, f'first use of the class is a dump: to_dict dropped / changed the catch-all pair {kk!r}: {vv!r}; '
                                     f'got {t0!r}'[:800], detail=src)
                            break
                    try:
                        st0 = model.StdTables()
                        st0.add_py(x)
                        dreqs.append({'op': 'dump', 'inst': model.enc_py(x, built), 'std': st0.build(), 'exclude': None, 'skip_defaults': None})
                        dpend.append((case, {'ok': model.enc_d(d0)}))
                    except Exception:
                        ctx.count('v1:dump_not_encodable')
            if history == 'second-root':
                ctx.count('v1:second-root')
                first = load_outcome(lambda: fromdict(built.root, copy.deepcopy(d)))
                second = load_outcome(lambda: fromdict(built.get('Second'), {'inner_obj': copy.deepcopy(inner_doc(d, depth))}))
                if first[0] == 'ok' and (second[0] == 'err' or not ref.same_typed(second[1].inner_obj, dig(first[1], depth))):
                    key = 'v1-catchall-second-root' if second[0] == 'err' and not isinstance(second[1], JSONWizardError) else None
                    ctx.fail(kind + ':second-root', case, f'the same document part loads as {dig(first[1], depth)!r} through the first root class, '
                             f'but through a second root class gives {second[1]!r}'[:800], key=key, detail=src)
            outs = None
            for v in views:
                cls_v = built.root if v['cls'] is None else built.get(v['cls'])
                case_v = case if v['view'] == 'root' else dict(case, view=v['view'], view_doc=repr(v['doc'])[:500], view_policy=v['policy'],
                                                               step=f'{views.index(v) + 1} of {">".join(hist)}')
                outs_v = eval_view_v1(ctx, kind, case_v, cls_v, v, target, built, src, has_tag, tag_key, fkey, dump_between, own=own,
                                      label=f'step {views.index(v) + 1} ({v["view"]} view): ')
                if v['view'] == 'root':
                    outs = outs_v
            if own is not None:
                own.settle(ctx, kind, case, src)
            if fkey is None:
                st = model.StdTables()
                st.add_json(d)
                reqs.append({'op': 'loadv1', 'ty': model.enc_ty(ty), 'doc': model.enc_j(d), 'std': st.build()})
                pend.append((case, outs[-1], built))
        finally:
            built.close()
    # ---- key case AUTO: a document that spells one field twice has no unknown key, yet `len(o) != i`
    for jj, policy in enumerate(['raise', 'catchall-default']):
        i = v1streams.OFFSET + n + jj
        if ctx.done(i):
            break
        nm = v1streams.Namer(n + jj)
        meta = {'v1': True, 'v1_key_case': 'AUTO'}
        fields = [{'name': 'my_field'}]
        ftys = [['my_field', T('int')]]
        if policy == 'raise':
            meta['v1_on_unknown_key'] = 'RAISE'
        else:
            fields.append({'name': 'extras_fld', 'catch_all': True, 'dflt': ['lit', None], 'factory': False})
            ftys.append(['extras_fld', T('any')])
        ty = {'k': 'cls', 'info': {'name': nm('A'), 'fields': fields, 'wizard': True, 'meta': meta}, 'ftys': ftys}
        built = model.Built(ty)
        try:
            if not ctx.begin_case(i):
                continue
            doc = {'my_field': 1, 'myField': 2}
            case = {'ty': ty, 'doc': repr(doc), 'engine': 'v1', 'probe': 'two-spellings', 'policy': policy}
            ctx.seen('unknown:v1:two-spellings', case)
            out = load_outcome(lambda: fromdict(built.root, dict(doc)))
            src = dict(src=built.source)
            if out[0] == 'err':
                e = out[1]
                key = 'v1-two-spellings-counted-once' if isinstance(e, UnknownKeysError) and not v1streams.unknown_keys_of(e) else None
                ctx.fail('unknown:v1:two-spellings', case, f'a document without unknown keys (one field spelled twice under key case AUTO) was rejected: '
                         f'{type(e).__name__} naming {getattr(e, "unknown_keys", None)!r}', key=key, detail=src)
            elif policy != 'raise' and out[1].extras_fld is not None:
                ctx.fail('unknown:v1:two-spellings', case, f'no unknown keys, yet the catch-all field holds {out[1].extras_fld!r} instead of its default None',
                         key='v1-two-spellings-counted-once' if out[1].extras_fld == {} else None, detail=src)
            st = model.StdTables()
            st.add_json(doc)
            reqs.append({'op': 'loadv1', 'ty': model.enc_ty(ty), 'doc': model.enc_j(doc), 'std': st.build()})
            pend.append((case, out, built))
        finally:
            built.close()
    if ctx.model_available:
        outs_m = ctx.driver.run(reqs)
        for (case, out, built), o_ in zip(pend, outs_m):
            compare_load(ctx, 'unknown:v1', case, out, o_, built)
        outs_d = ctx.driver.run(dreqs)
        for (case, impl), o in zip(dpend, outs_d):
            if 'err' in o and 'r' not in o:
                ctx.agree('unknown:v1:dump-model', case, impl, {'driver_error': o['err']})
                continue
            r = o['r']
            if model.has_miss(r):
                ctx.count('std_miss')
                continue
            ctx.agree('unknown:v1:dump-model', case, impl, {'ok': r['ok']} if 'ok' in r else {'err': r['err']})


def check_v1(ctx, kind, case, rep, policy, out, base_out, U, depth, target, built, src, has_tag, tag_key, d, key=None):
    from dataclass_wizard import asdict
    from dataclass_wizard.errors import UnknownKeysError
    tname = target['info']['name']
    if base_out[0] == 'err':
        ctx.fail(kind, case, f'the document without extra keys does not load: {type(base_out[1]).__name__}: {str(base_out[1])[:300]}', key=key, detail=src)
        return
    if policy == 'raise' and U:
        if out[0] == 'ok':
            ctx.fail(kind, case, f'call #{rep}: document with unknown key(s) {sorted(U)} was accepted under v1_on_unknown_key=RAISE', key=key, detail=src)
            return
        e = out[1]
        if not isinstance(e, UnknownKeysError):
            ctx.fail(kind, case, f'call #{rep}: expected UnknownKeysError, got {type(e).__name__}: {str(e)[:200]}', key=key, detail=src)
            return
        keys = v1streams.unknown_keys_of(e)
        if not keys or not set(keys) <= set(U):
            ctx.fail(kind, case, f'call #{rep}: UnknownKeysError names {keys!r}, the unknown keys of the document are {sorted(U)}', key=key, detail=src)
        if e.class_name != tname:
            ctx.fail(kind, case, f'call #{rep}: UnknownKeysError names class {e.class_name!r}, expected {tname!r}', key=key, detail=src)
        try:
            assert isinstance(str(e), str)
        except Exception as ee:
            ctx.fail(kind, case, f'str(UnknownKeysError) raised {ee!r}', key=key, detail=src)
        return
    if out[0] == 'err':
        e = out[1]
        extra = f' naming {v1streams.unknown_keys_of(e)!r}' if isinstance(e, UnknownKeysError) else ''
        ctx.fail(kind, case, f'call #{rep}: load raised {type(e).__name__}{extra}: {str(e)[:300]} (policy {policy}, unknown keys {sorted(U)})', key=key, detail=src)
        return
    y, yb = dig(out[1], depth), dig(base_out[1], depth)
    for f in target['info']['fields']:
        if f.get('catch_all'):
            continue
        if not ref.same_typed(getattr(y, f['name']), getattr(yb, f['name'])):
            ctx.fail(kind, case, f'call #{rep}: field {f["name"]} = {getattr(y, f["name"])!r} with extra keys, {getattr(yb, f["name"])!r} without', key=key, detail=src)
            return
    if policy in ('catchall', 'catchall-default'):
        got = y.extras_fld
        cf = next(f for f in target['info']['fields'] if f.get('catch_all'))
        if U:
            if not (isinstance(got, dict) and list(got.items()) == [(k, v) for k, v in _in_doc_order(U, d, depth)] and
                    all(ref.same_typed(got[k], U[k]) for k in U)):
                ctx.fail(kind, case, f'call #{rep}: catch-all field holds {got!r}, expected exactly {U!r}', key=key, detail=src)
                return
            back = asdict(out[1])
            tgt = back
            for _ in range(depth):
                tgt = tgt.get('innerObj', tgt.get('inner_obj'))
            for k, v in U.items():
                if k not in tgt or not ref.same_typed(tgt[k], v):
                    ctx.fail(kind, case, f'call #{rep}: to_dict(from_dict(d)) lost / changed unknown pair {k!r}: {v!r}; got {tgt!r}'[:800], key=key, detail=src)
                    return
        else:
            want = ref.dflt_value(cf['dflt']) if cf.get('dflt') is not None else {}
            if not ref.same_typed(got, want):
                ctx.fail(kind, case, f'call #{rep}: no unknown keys, catch-all field holds {got!r}, expected {want!r}', key=key, detail=src)


# --------------------------------------------------------------------------- third stream: ways of reaching the class (default engine)

REACH_POLICIES = ['ignore', 'raise-root', 'raise-root', 'raise-root', 'raise-own', 'catchall', 'catchall-default']


def _dumped_at(back, path):
    """the part of a to_dict output that belongs to document position `path` (field names may be written in camelCase)"""
    cur = back
    for s_ in path:
        if isinstance(cur, dict):
            cur = cur[s_] if s_ in cur else cur[v1streams.camel(s_)]
        else:
            cur = cur[s_]
    return cur


def _loaded_at(y, path):
    for s_ in path:
        y = getattr(y, s_) if (isinstance(s_, str) and not isinstance(y, dict)) else y[s_]
    return y


def run_reach(ctx: C.Ctx):
    from dataclass_wizard import fromdict, asdict
    from dataclass_wizard.errors import UnknownKeysError
    from harness.props.c13 import with_auto_tags
    rng = v1streams.sub_rng(ctx, 'reach')
    gen.SUBS = False
    ctx.rule += (' || REACH STREAM (default engine): main classes whose holder fields reach the member classes directly / through list / '
                 'Optional / dict, through Union[A, B(, None)] of tagged dataclasses (explicit Meta.tag or auto_assign_tags, default or custom '
                 'tag key), lists / dicts of such Unions and through values of a TypedDict; policy in {ignore, raise cascading from the main '
                 'class, raise declared on the member, CatchAll without / with default} x ONE dataclass object of a complete document (the '
                 'main object or any nested one) receiving a set U of 0..3 unknown keys — for objects of untagged classes also a key spelled '
                 'exactly like the (default / custom / cascaded) tag key — x 1..3 repetitions: under a raise policy UnknownKeysError naming '
                 'only keys of U and the class of that object, whatever machinery sits between it and the main class; otherwise the load '
                 'equals the one without U except that a CatchAll field of that object holds exactly U in document order and to_dict writes U '
                 'back; vs the Lean model.')
    n = ctx.quick(260, 3000)
    o = gen.Opts(meta_keys=[], meta_prob=0.0, allow_union=False, allow_nt=False, allow_td=False, allow_cls=False,
                 leaves=['int', 'str', 'bool', 'float', 'any'], containers=['list', 'dict'], max_fields=3, wizard_prob=0.7,
                 py_wizard_prob=0.0)
    reqs, pend = [], []
    for j in range(n):
        i = REACH_OFFSET + j
        if ctx.done(i):
            break
        base_nm = v1streams.Namer(j)

        def nm(prefix='K', base_nm=base_nm):
            return base_nm('Q' + prefix)
        policy = rng.choice(REACH_POLICIES)
        catch = policy in ('catchall', 'catchall-default')

        def mk():
            ty_ = gen.gen_cls(rng, 1, o, name=nm('T'))
            info = ty_['info']
            info['meta'] = {'raise_on_unknown_json_key': True} if policy == 'raise-own' else None
            if catch:
                cf = {'name': 'extras_fld', 'catch_all': True}
                if policy == 'catchall-default':
                    cf['dflt'] = ['lit', None] if rng.random() < 0.5 else ['dict']
                    cf['factory'] = cf['dflt'][0] != 'lit'
                    info['fields'].append(cf)
                else:
                    ix = next((k_ for k_, f in enumerate(info['fields']) if f.get('dflt') is not None), len(info['fields']))
                    info['fields'].insert(ix, cf)
                ty_['ftys'].append(['extras_fld', T('any')])
            return ty_
        ty, facts = reach.gen_root(rng, nm, mk, root_meta={'raise_on_unknown_json_key': True} if policy == 'raise-root' else None)
        try:
            built = model.Built(ty)
        except Exception as e:
            ctx.count('build_error')
            ctx.notes.setdefault('build_errors', []).append(repr(e)[:300])
            continue
        try:
            base = reach.gen_doc(rng, ty, built)
            objs = reach.class_objects(ty, base)
            nested = [x for x in objs if x[0]]
            path, tnode, _ = rng.choice(nested) if nested and rng.random() < 0.85 else objs[0]
            tinfo = tnode['info']
            is_root = not path
            fnames = [f['name'] for f in tinfo['fields'] if not f.get('catch_all')]
            has_tag = tnode.get('utag') is not None
            tag_key = facts['tag_key']
            U = draw_unknown(rng, fnames, has_tag, tag_key, counts=(0, 1, 1, 1, 2, 3))
            if not has_tag and rng.random() < 0.3:
                # an untagged class: the tag key is a key like any other
                U[tag_key] = rng.choice(['t', 1, None, tinfo['name']])
            d = copy.deepcopy(base)
            obj_u = with_unknown(rng, reach.at_path(base, path), U)
            if is_root:
                d = obj_u
            else:
                reach.at_path(d, path[:-1])[path[-1]] = obj_u
            reps = rng.choice([1, 2, 3])
            eff = ('raise' if policy == 'raise-root' or (policy == 'raise-own' and not is_root) else
                   policy if (catch and not is_root) else 'ignore')
            if not ctx.begin_case(i):
                continue
            case = {'ty': ty, 'doc': repr(d)[:600], 'policy': policy, 'effective': eff, 'U': repr(U), 'at': repr(path), 'target': tinfo['name'],
                    'reach': facts, 'reps': reps}
            kind = 'unknown:reach:' + policy
            ctx.seen(kind, case, nontrivial=bool(U))
            for sh in facts['shapes']:
                ctx.count('reach:' + sh)
            src = dict(src=built.source)
            Root = built.root
            base_out = load_outcome(lambda: fromdict(Root, copy.deepcopy(base)))
            outs = [load_outcome(lambda: fromdict(Root, copy.deepcopy(d))) for _ in range(reps)]
            if base_out[0] == 'err':
                ctx.fail(kind, case, f'the complete document without extra keys does not load: {type(base_out[1]).__name__}: {str(base_out[1])[:300]}', detail=src)
                outs = []
            for rep, out in enumerate(outs, 1):
                nf = len(ctx.failures)
                if eff == 'raise' and U:
                    if out[0] == 'ok':
                        ctx.fail(kind, case, f'call #{rep}: document with unknown key(s) {sorted(U)} in the {tinfo["name"]} object at {path!r} was accepted under '
                                 f'raise_on_unknown_json_key', detail=src)
                    elif not isinstance(out[1], UnknownKeysError):
                        ctx.fail(kind, case, f'call #{rep}: unknown key(s) {sorted(U)} in the {tinfo["name"]} object at {path!r}: expected UnknownKeysError, got '
                                 f'{type(out[1]).__name__}: {str(out[1])[:300]}', detail=src)
                    else:
                        e = out[1]
                        keys = v1streams.unknown_keys_of(e)
                        if not keys or not set(keys) <= set(U):
                            ctx.fail(kind, case, f'call #{rep}: UnknownKeysError names {keys!r}, the unknown keys of the document are {sorted(U)}', detail=src)
                        if e.class_name != tinfo['name']:
                            ctx.fail(kind, case, f'call #{rep}: UnknownKeysError names class {e.class_name!r}, expected {tinfo["name"]!r}', detail=src)
                        try:
                            assert isinstance(str(e), str)
                        except Exception as ee:            # noqa
                            ctx.fail(kind, case, f'str(UnknownKeysError) raised {ee!r}', detail=src)
                elif out[0] == 'err':
                    ctx.fail(kind, case, f'call #{rep}: load raised {type(out[1]).__name__}: {str(out[1])[:300]} (policy in force {eff}, unknown keys {sorted(U)} '
                             f'in the {tinfo["name"]} object at {path!r})', detail=src)
                else:
                    y, yb = out[1], base_out[1]
                    y_cmp = y
                    if catch and not is_root and U:
                        t_y, t_b = _loaded_at(y, path), _loaded_at(yb, path)
                        got = t_y.extras_fld
                        want = [(k_, v_) for k_, v_ in obj_u.items() if k_ in U]
                        if not (isinstance(got, dict) and list(got.items()) == want and all(ref.same_typed(got[k_], U[k_]) for k_ in U)):
                            ctx.fail(kind, case, f'call #{rep}: catch-all field of the {tinfo["name"]} object at {path!r} holds {got!r}, expected exactly {dict(want)!r}', detail=src)
                        else:
                            try:
                                tgt = _dumped_at(asdict(y), path)
                                lost = [k_ for k_ in U if k_ not in tgt or not ref.same_typed(tgt[k_], U[k_])]
                            except Exception as ee:        # noqa
                                tgt, lost = repr(ee), list(U)
                            if lost:
                                ctx.fail(kind, case, f'call #{rep}: to_dict(from_dict(d)) lost / changed the unknown pair(s) {lost!r} of the object at {path!r}; got {tgt!r}'[:800], detail=src)
                            # everything else as without U
                            y_cmp = copy.deepcopy(y)
                            _loaded_at(y_cmp, path).extras_fld = copy.deepcopy(t_b.extras_fld)
                    if len(ctx.failures) == nf and not ref.same_typed(y_cmp, yb):
                        ctx.fail(kind, case, f'call #{rep}: the load with extra keys {sorted(U)} gives {y!r}, without them {yb!r}'[:900], detail=src)
                if len(ctx.failures) > nf:
                    break
            if outs:
                st = model.StdTables()
                st.add_json(d)
                # (the model is told the documented meaning of auto_assign_tags: every Union member answers to its class name, as in C13)
                mty = with_auto_tags(ty, facts['tag_mode'].startswith('auto'))
                reqs.append({'op': 'load', 'ty': model.enc_ty(mty), 'doc': model.enc_j(d), 'std': st.build()})
                pend.append((case, outs[-1], built))
        finally:
            built.close()
    if ctx.model_available:
        outs_m = ctx.driver.run(reqs)
        for (case, out, built), o_ in zip(pend, outs_m):
            compare_load(ctx, 'unknown:reach', case, out, o_, built)
