"""C08 part B — aliases and nested paths end to end, both engines.

Class models (JSON) carry 2..4 int fields, each declared through one of the documented forms
  default engine: plain | json_field(keys, all=, dump=) | Annotated[int, json_key(*keys, all=, dump=)] |
                  field(metadata={'__remapping__': json_key(..)}) | path_field(path, all=, dump=) |
                  Annotated[int, KeyPath(path, all=, dump=)]  + Meta.json_key_to_field ('__all__') + key transforms
  v1 engine:      plain | Alias(*all, skip=) | Alias(load=, dump=, skip=) | AliasPath(*paths, skip=) |
                  AliasPath(load=) | AliasPath(dump=)  (default-value or Annotated form)
  spelling:       annotations as objects | module with `from __future__ import annotations` | individually quoted
                  annotations (all / some fields); `Annotated` by any of its names  (`gen_spelling`; the reference
                  does not look at it: how an annotation is written never changes which key reaches the field)
                  + Meta.v1_field_to_alias ('__load__' / '__dump__') + v1_key_case + key_transform_with_dump
Three judges per class:
  oracle   an independent reference written from docs/common_use_cases/{custom_key_mappings,nested_key_paths,
           v1_alias,serialization_options}.rst, the Alias / AliasPath docstrings and the property text
           (`ref_rules`, `ref_load`, `ref_dump` below; it never looks at the library's tables);
  model    the Lean model DW/Model/Alias.lean through driver op "c08" (exact, incl. document order);
  laws     load(dump(x)) == x when every field is dumped and the configuration is two-way.
"""
from __future__ import annotations

import copy
import json
import logging

from harness import common as C
from harness import model
from harness.model import T

NAMES = ['alpha', 'my_val', 'item_id2', 'user_name', 'zed', 'ab_cd_ef', 'count', 'is_ok']
ALIASES = ['id', 'itemId', 'ITEM_ID', 'X-Api-Token', 'my key', "it's", 'say "hi"', 'a.b', 'x[0]', 'back\\slash', 'ünï',
           '{brace}', 'new\nline', 'true', '0', 'qty', 'n', 'Label', 'dollar$', '%s', 'tab\t', "q'\"q", '-1', 'None',
           # aliases that look like (are the image of) one of the key transforms: word lists in snake / camel / kebab shape
           'item_count', 'order_qty2', 'unitPrice', 'api-token', 'Total_Sum']
PATH_HEADS = ['data', 'meta', 'cfg', 'settings', 'p', 'my root', 'x.y', 'r[0]', "o'k", 'h"q', 'Zz', 'k9']
PATH_STRS = ['nested', 'info', 'feature flags', 'a.b', 'x[0]', 'true', '7', "it's", 'say "hi"', 'q', 'name', 'count', '-1', 'é', 'b c']
LOAD_CASES = [None, None, None, 'SNAKE', 'CAMEL', 'PASCAL', 'LISP', 'NONE']
DUMP_CASES = [None, None, None, 'CAMEL', 'PASCAL', 'LISP', 'SNAKE', 'NONE']
V1_CASES = [None, None, 'CAMEL', 'PASCAL', 'KEBAB', 'SNAKE', 'AUTO', 'AUTO']

# ------------------------------------------------------------------ casing reference (canonical names only)


def _ws(name):
    return name.split('_')


CASE_FN = {
    'SNAKE': lambda n: n,
    'CAMEL': lambda n: _ws(n)[0] + ''.join(w[0].upper() + w[1:] for w in _ws(n)[1:]),
    'PASCAL': lambda n: ''.join(w[0].upper() + w[1:] for w in _ws(n)),
    'LISP': lambda n: '-'.join(_ws(n)),
    'KEBAB': lambda n: '-'.join(_ws(n)),
    'NONE': lambda n: n,
    'UPPER_KEBAB': lambda n: '-'.join(w[0].upper() + w[1:] for w in _ws(n)),
    'UPPER_SNAKE': lambda n: '_'.join(w[0].upper() + w[1:] for w in _ws(n)),
    'SCREAMING': lambda n: n.upper(),
}
DEFAULT_ENGINE_CASINGS = ['SNAKE', 'CAMEL', 'PASCAL', 'KEBAB', 'UPPER_KEBAB', 'UPPER_SNAKE', 'SCREAMING']
AUTO_CASINGS = ['SNAKE', 'CAMEL', 'PASCAL', 'KEBAB', 'UPPER_KEBAB', 'UPPER_SNAKE']


# ------------------------------------------------------------------ path rendering (components -> documented syntax)

def _is_plain_word(s):
    return (isinstance(s, str) and s != '' and all(ch.isalnum() or ch in '_ $' for ch in s) and not (s[0].isdigit() or s[0] in '+-')
            and s not in ('true', 'false', 'True', 'False') and s.isascii())


def render_comps(comps, rng):
    out = []
    for i, c in enumerate(comps):
        bracket = rng.random() < 0.4
        if isinstance(c, bool):
            body = rng.choice(['true', 'True'] if c else ['false', 'False'])
        elif isinstance(c, int):
            body = str(c)
        elif isinstance(c, float):
            body, bracket = repr(c), True
        elif _is_plain_word(c) and rng.random() < 0.7:
            body = c
        else:
            q = rng.choice('"\'')
            if '\\' in c:
                raise ValueError('generator: no backslashes in path components')
            body = q + c.replace(q, '\\' + q) + q
        if bracket:
            out.append(('.' if out and rng.random() < 0.15 else '') + '[' + body + ']')
        else:
            out.append(('.' if i > 0 else '') + body)
    return ''.join(out)


def gen_comps(rng, head):
    depth = rng.choice([1, 2, 2, 3, 3, 4])
    comps = [head]
    after_quoted = not _is_plain_word(head)
    for _ in range(depth - 1):
        r = rng.random()
        if r < 0.22 or (after_quoted and r < 0.5):
            comps.append(rng.choice([True, False]))
        elif r < 0.45 or (after_quoted and r < 0.7):
            comps.append(rng.choice([0, 1, 2, -1, 7]))
        elif r < 0.5:
            comps.append(rng.choice([1.5, 0.25, -2.5]))
        else:
            s = rng.choice(PATH_STRS)
            comps.append(s)
            after_quoted = after_quoted or not _is_plain_word(s)
    return comps


# ------------------------------------------------------------------ class model generation

def gen_class(rng, engine):
    nf = rng.randint(2, 4)
    names = rng.sample(NAMES, nf)
    pool = ALIASES[:]
    rng.shuffle(pool)
    heads = PATH_HEADS[:]
    rng.shuffle(heads)
    if rng.random() < 0.12:
        heads.insert(0, rng.choice([0, 1, True]))     # a top-level int / bool key
    fields = []

    claimed = set()

    def take_aliases(k, me):
        out = [pool.pop() for _ in range(k)]
        r = rng.random()
        sub = None
        if r < 0.18:
            other = rng.choice([n for n in names if n != me])
            sub = rng.choice([other, CASE_FN['CAMEL'](other)])   # alias text == another field's name
        elif r < 0.26:
            sub = me
        if sub is not None and sub not in claimed:               # one explicit alias text belongs to one field only
            out[rng.randrange(len(out))] = sub
        claimed.update(out)
        return out

    def take_path():
        comps = gen_comps(rng, heads.pop(0))
        style = 'text' if rng.random() < 0.8 else 'list'
        return {'comps': comps, 'style': style, 'text': render_comps(comps, rng) if style == 'text' else None}

    for i, name in enumerate(names):
        f = {'name': name, 'dflt': (-(i + 1) if rng.random() < 0.5 else None), 'ann': False}
        r = rng.random()
        if engine == 'default':
            if r < 0.18:
                f['form'] = 'plain'
            elif r < 0.62:
                f['form'] = rng.choice(['json_field', 'json_field', 'ann_key', 'ann_key', 'meta_key'])
                f['keys'] = take_aliases(rng.choice([1, 1, 2, 3]), name)
                f['all'] = rng.choice([None, True, True, False])
                f['dump'] = rng.choice([None, True, False])
                f['keys_as'] = rng.choice(['str', 'tuple', 'list']) if (len(f['keys']) == 1 and f['form'] == 'json_field') else 'tuple'
            else:
                f['form'] = rng.choice(['path_field', 'ann_path'])
                f['path'] = take_path()
                f['all'] = rng.choice([None, None, True, False])
                f['dump'] = rng.choice([None, True, True, False])
        else:
            f['ann'] = rng.random() < 0.4
            f['skip'] = rng.random() < 0.2
            if r < 0.2:
                f['form'], f['skip'] = 'plain', False
            elif r < 0.45:
                f['form'] = 'alias_all'
                f['keys'] = take_aliases(rng.choice([1, 2, 3, 3]), name)
            elif r < 0.7:
                f['form'] = 'alias_ld'
                f['load'] = take_aliases(rng.choice([1, 2, 3]), name) if rng.random() < 0.75 else None
                f['load_as'] = 'str' if f['load'] and len(f['load']) == 1 and rng.random() < 0.5 else 'tuple'
                f['dumpa'] = pool.pop() if rng.random() < 0.6 else None
                if f['load'] is None and f['dumpa'] is None:
                    f['dumpa'] = pool.pop()
            else:
                f['form'] = 'alias_path'
                f['mode'] = rng.choice(['all', 'all', 'all', 'load', 'dump'])
                f['paths'] = [take_path() for _ in range(1 if f['mode'] == 'dump' else rng.choice([1, 2, 3]))]
        fields.append(f)
    # dataclass rule: fields without a default first
    fields.sort(key=lambda f: f['dflt'] is not None)
    cm = {'engine': engine, 'fields': fields, 'base': rng.choice(['JSONWizard', 'JSONWizard', 'JSONPyWizard']), 'meta': {}}
    plain = [f['name'] for f in fields if f['form'] == 'plain']
    if engine == 'default':
        cm['meta']['load_case'] = rng.choice(LOAD_CASES)
        cm['meta']['dump_case'] = rng.choice(DUMP_CASES)
        if plain and rng.random() < 0.5:
            ent = []
            for _ in range(rng.randint(1, 3)):
                ent.append([pool.pop(), rng.choice(plain)])
            cm['meta']['key_to_field'] = {'all': rng.choice([None, True, False]), 'entries': ent}
    else:
        cm['meta']['v1_key_case'] = rng.choice(V1_CASES)
        cm['meta']['dump_case'] = rng.choice(DUMP_CASES)
        if plain and rng.random() < 0.5:
            ent = []
            for n in rng.sample(plain, rng.randint(1, len(plain))):
                k = rng.choice([1, 2, 3])
                ent.append([n, [pool.pop() for _ in range(k)], 'str' if k == 1 and rng.random() < 0.6 else 'tuple'])
            cm['meta']['field_to_alias'] = {'load': rng.choice([None, True, False]), 'dump': rng.choice([None, True, False]),
                                            'entries': ent}
    cm['first_op'] = rng.choice(['load', 'dump'])
    cm['spelling'] = gen_spelling(cm)
    return cm


ANNOTATED_NAMES = ['Annotated', 'Annotated', 'Annotated', 'Annotated', '_t.Annotated', '_te.Annotated']


def gen_spelling(cm):
    """How the annotations of the class are *written* — a dimension that never changes which key reaches which field:
      module    None | 'future'  the module starts with `from __future__ import annotations` (PEP 563: every annotation of
                                 the class is stored as a string and resolved by the library)
      quoted    names of the fields whose annotation is written as a quoted string (a forward reference) by hand
      annotated the name under which `Annotated` is referred to (typing / typing_extensions, plain or qualified)
    The mapping of a field is given inside `Annotated[...]` (forms ann_key / ann_path / v1 ann=True) or as its default,
    as drawn by gen_class; all combinations occur.  The draw is a deterministic function of the class model (seeded by
    its text, not by the case stream), so the (class, document) stream of a seed is the one it was before this
    dimension existed — only the spelling of some classes differs — and a replay regenerates it."""
    import random
    r = random.Random('spelling|' + json.dumps(cm, sort_keys=True, ensure_ascii=True))
    names = [f['name'] for f in cm['fields']]
    x = r.random()
    sp = {'module': None, 'quoted': [], 'annotated': r.choice(ANNOTATED_NAMES)}
    if x < 0.5:
        pass
    elif x < 0.76:
        sp['module'] = 'future'
        if r.random() < 0.2:                                   # a quoted annotation under the future import: a string in a string
            sp['quoted'] = [n for n in names if r.random() < 0.5]
    elif x < 0.9:
        sp['quoted'] = names
    else:
        sp['quoted'] = [n for n in names if r.random() < 0.5] or names[:1]
    return sp


# ------------------------------------------------------------------ class model -> source

def _path_src(p):
    return repr(p['text']) if p['style'] == 'text' else repr(list(p['comps']))


def meta_items(cm, mappings=True):
    """the lines of the Meta block that states the class model's configuration (`mappings=False`: without the
    per-class alias mappings, i.e. the part an enclosing class hands down to a nested one)"""
    m = cm['meta']
    items = []
    if cm['engine'] == 'v1':
        items.append('v1 = True')
        if m.get('v1_key_case'):
            items.append(f'v1_key_case = {m["v1_key_case"]!r}')
        fa = m.get('field_to_alias')
        if fa and mappings:
            d = {n: (ks[0] if how == 'str' else tuple(ks)) for n, ks, how in fa['entries']}
            if fa['load'] is not None:
                d['__load__'] = fa['load']
            if fa['dump'] is not None:
                d['__dump__'] = fa['dump']
            items.append(f'v1_field_to_alias = {d!r}')
    else:
        if m.get('load_case'):
            items.append(f'key_transform_with_load = {m["load_case"]!r}')
        kf = m.get('key_to_field')
        if kf and mappings:
            d = {}
            if kf['all'] is not None:
                d['__all__'] = kf['all']
            for a, n in kf['entries']:
                d[a] = n
            items.append(f'json_key_to_field = {d!r}')
    if m.get('dump_case'):
        items.append(f'key_transform_with_dump = {m["dump_case"]!r}')
    return items


def render_class(cm, cname, plain=False):
    """`plain=True`: an ordinary @dataclass without base class and Meta (a nested class that takes its configuration
    from the class that encloses it)"""
    sp = cm.get('spelling') or {}
    A = sp.get('annotated') or 'Annotated'
    if plain:
        L = ['@dataclass', f'class {cname}:']
    else:
        L = ['@dataclass', f'class {cname}({cm["base"]}):', f'    class _({cm["base"]}.Meta):']
        for it in meta_items(cm) or ['pass']:
            L.append('        ' + it)
    for f in cm['fields']:
        d = f['dflt']
        dflt = [f'default={d!r}'] if d is not None else []
        form = f['form']
        ann, rhs = 'int', None

        def kw(*names):
            out = []
            for n in names:
                if f.get(n) is not None:
                    out.append(f'{n}={f[n]!r}')
            return out
        if form == 'plain':
            rhs = repr(d) if d is not None else None
        elif form == 'json_field':
            ks = f['keys']
            k = repr(ks[0]) if f['keys_as'] == 'str' else repr(list(ks)) if f['keys_as'] == 'list' else repr(tuple(ks))
            rhs = f'json_field({", ".join([k] + kw("all", "dump") + dflt)})'
        elif form == 'ann_key':
            ann = f'{A}[int, json_key({", ".join([repr(k) for k in f["keys"]] + kw("all", "dump"))})]'
            rhs = repr(d) if d is not None else None
        elif form == 'meta_key':
            jk = f'json_key({", ".join([repr(k) for k in f["keys"]] + kw("all", "dump"))})'
            rhs = f'field({", ".join(dflt + ["metadata={" + repr("__remapping__") + ": " + jk + "}"])})'
        elif form == 'path_field':
            rhs = f'path_field({", ".join([_path_src(f["path"])] + kw("all", "dump") + dflt)})'
        elif form == 'ann_path':
            ann = f'{A}[int, KeyPath({", ".join([_path_src(f["path"])] + kw("all", "dump"))})]'
            rhs = repr(d) if d is not None else None
        else:
            skip = ['skip=True'] if f.get('skip') else []
            if form == 'alias_all':
                call = 'Alias(' + ', '.join([repr(k) for k in f['keys']] + skip)
            elif form == 'alias_ld':
                a = []
                if f['load'] is not None:
                    a.append('load=' + (repr(f['load'][0]) if f['load_as'] == 'str' else repr(tuple(f['load']))))
                if f['dumpa'] is not None:
                    a.append(f'dump={f["dumpa"]!r}')
                call = 'Alias(' + ', '.join(a + skip)
            else:
                ps = [_path_src(p) for p in f['paths']]
                if f['mode'] == 'all':
                    a = ps
                elif f['mode'] == 'load':
                    a = ['load=' + (ps[0] if len(ps) == 1 and f['paths'][0]['style'] == 'text' else '(' + ', '.join(ps) + ',)')]
                else:
                    a = ['dump=' + (ps[0] if f['paths'][0]['style'] == 'text' else '(' + ps[0] + ',)')]
                call = 'AliasPath(' + ', '.join(a + skip)
            if f['ann']:
                ann = f'{A}[int, {call})]'
                rhs = repr(d) if d is not None else None
            else:
                rhs = call + (', ' if (dflt and not call.endswith('(')) else '') + ', '.join(dflt) + ')'
        if f['name'] in sp.get('quoted', ()):
            ann = repr(ann)                 # the annotation written as a string (resolved by the library)
        L.append(f'    {f["name"]}: {ann}' + (f' = {rhs}' if rhs is not None else ''))
    return '\n'.join(L) + '\n'


SRC_EXTRA = '''
from typing import Annotated
from dataclass_wizard.v1 import Alias, AliasPath
'''


class PostponedModule:
    """The same registered scratch module as `model.Built`, but its source starts with
    `from __future__ import annotations`, so every annotation in it is stored as a string.  (`model.Built` compiles with
    dont_inherit=True and no future statement; the statement has to be the first one of the module, hence a separate
    builder rather than a piece of `extra_src`.)"""

    def __init__(self, src):
        import sys
        import types
        self.source = 'from __future__ import annotations\n' + model.PRELUDE + '\n' + src
        self.modname = model.fresh('dwv_mod_')
        self.mod = types.ModuleType(self.modname)
        sys.modules[self.modname] = self.mod
        try:
            exec(compile(self.source, f'<{self.modname}>', 'exec', dont_inherit=True), self.mod.__dict__)
        except Exception:
            self.close()
            raise

    def get(self, name):
        return getattr(self.mod, name)

    def close(self):
        import sys
        sys.modules.pop(self.modname, None)


def shown_src(cm, src):
    """the source as reported with a failure: says when the module has the future import"""
    if (cm.get('spelling') or {}).get('module') == 'future':
        return 'from __future__ import annotations\n# ...\n' + src
    return src


def build_module(cm, src):
    """the module holding the rendered classes, written the way the class model's spelling says"""
    if (cm.get('spelling') or {}).get('module') == 'future':
        return PostponedModule(SRC_EXTRA + src)
    return model.Built(T('any'), extra_src=SRC_EXTRA + src)

# ------------------------------------------------------------------ the reference (documentation semantics)


def dump_case_of(cm):
    dc = cm['meta'].get('dump_case')
    if dc is None:
        dc = 'NONE' if cm['base'] == 'JSONPyWizard' else 'CAMEL'
    return dc


def ref_rules(cm):
    """per field: ordered explicit load keys, ordered load paths, whether its own name still reaches it, dump target"""
    out = {}
    m = cm['meta']
    tname = lambda n: CASE_FN[dump_case_of(cm)](n)
    for f in cm['fields']:
        n, form = f['name'], f['form']
        r = {'keys': [], 'paths': [], 'own': True, 'dump': ('key', tname(n)), 'dflt': f['dflt']}
        if cm['engine'] == 'default':
            if form in ('json_field', 'ann_key', 'meta_key'):
                r['keys'] = list(f['keys'])
                if f['dump'] is False:
                    r['dump'] = ('none',)
                elif f['all']:
                    r['dump'] = ('key', f['keys'][0])
            elif form in ('path_field', 'ann_path'):
                r['paths'], r['own'] = [f['path']['comps']], False      # the documented location of a path field is its path
                if f['dump'] is False:
                    r['dump'] = ('none',)
                elif f['all'] is not False:           # all=True is the default of path_field / KeyPath
                    r['dump'] = ('path', f['path']['comps'])
            kf = m.get('key_to_field')
            if kf:
                mine = [a for a, fn in kf['entries'] if fn == n]
                r['keys'] += mine
                if mine and kf['all']:
                    r['dump'] = ('key', mine[0])
        else:
            if form == 'alias_all':
                r['keys'], r['own'] = list(f['keys']), False
                r['dump'] = ('key', f['keys'][0])
            elif form == 'alias_ld':
                if f['load'] is not None:
                    r['keys'], r['own'] = list(f['load']), False
                if f['dumpa'] is not None:
                    r['dump'] = ('key', f['dumpa'])
            elif form == 'alias_path':
                comps = [p['comps'] for p in f['paths']]
                if f['mode'] in ('all', 'load'):
                    r['paths'], r['own'] = comps, False
                if f['mode'] in ('all', 'dump'):
                    r['dump'] = ('path', comps[0])
            fa = m.get('field_to_alias')
            if fa:
                for fn, ks, _how in fa['entries']:
                    if fn == n:
                        if fa['load'] is not False:
                            r['keys'], r['own'] = list(ks), False
                        if fa['dump'] is not False:
                            r['dump'] = ('key', ks[0])
            if f.get('skip'):
                r['dump'] = ('none',)
        out[n] = r
    return out


def own_spellings(cm, name):
    """the documented spellings of the field's own name under the class's load configuration"""
    if cm['engine'] == 'default':
        lc = cm['meta'].get('load_case')
        if lc in (None, 'SNAKE'):
            return [CASE_FN[c](name) for c in DEFAULT_ENGINE_CASINGS]
        return [name]
    kc = cm['meta'].get('v1_key_case')
    if kc is None:
        return [name]
    if kc == 'AUTO':
        return [CASE_FN[c](name) for c in AUTO_CASINGS]
    return [CASE_FN[kc](name)]


_MISS = object()


def path_get(doc, comps):
    cur = doc
    for c in comps:
        try:
            cur = cur[c]
        except (KeyError, IndexError):
            return _MISS
        except TypeError:
            return 'invalid'
    return cur


def ref_load(cm, doc):
    """-> ('err',) or ('ok', {field: set of acceptable values | None (= not judged)})"""
    rules = ref_rules(cm)
    res = {}
    v1 = cm['engine'] == 'v1'
    explicit = {}
    for n, r in rules.items():
        for k in r['keys']:
            explicit.setdefault(k, set()).add(n)
    for n, r in rules.items():
        vals, judged = [], True
        if v1:
            # ordered: the first listed alias / path present wins; own name only when nothing explicit is declared
            for k in r['keys']:
                if k in doc:
                    vals = [doc[k]]
                    break
            else:
                for p in r['paths']:
                    v = path_get(doc, p)
                    if v == 'invalid':
                        return ('err',)
                    if v is not _MISS:
                        vals = [v]
                        break
            if r['own'] and not vals:
                sp = own_spellings(cm, n)
                present = [s for s in sp if s in doc]
                if len(present) > 1 and len({doc[s] for s in present}) > 1:
                    judged = False          # AUTO with several spellings present: no documented priority
                vals = [doc[s] for s in present[:1]]
        else:
            for k in r['keys']:
                if k in doc:
                    vals.append(doc[k])
            for p in r['paths']:
                v = path_get(doc, p)
                if v == 'invalid':
                    return ('err',)
                if v is not _MISS:
                    vals.append(v)
            for s in (own_spellings(cm, n) if r['own'] else []):
                if s in doc:
                    if explicit.get(s, set()) - {n}:
                        judged = judged and bool(vals)   # that key is someone else's explicit alias: who gets it is not documented
                        if not vals:
                            judged = False
                    else:
                        vals.append(doc[s])
        if not judged:
            res[n] = None
            res['__unjudged__'] = None
        elif vals:
            res[n] = set(vals)
        elif r['dflt'] is not None:
            res[n] = {r['dflt']}
        else:
            return ('err',)
    return ('ok', res)


def ref_dump(cm, vals):
    rules = ref_rules(cm)
    out = {}
    for f in cm['fields']:
        n = f['name']
        tgt = rules[n]['dump']
        if tgt[0] == 'key':
            out[tgt[1]] = vals[n]
        elif tgt[0] == 'path':
            cur = out
            for c in tgt[1][:-1]:
                cur = cur.setdefault(c, {})
            cur[tgt[1][-1]] = vals[n]
    return out


def two_way(cm):
    """is load(dump(x)) == x promised?  every field dumped, and dumped where the load side looks."""
    rules = ref_rules(cm)
    for n, r in rules.items():
        tgt = r['dump']
        if tgt[0] == 'none':
            return False
        if tgt[0] == 'key':
            if tgt[1] in r['keys']:
                continue
            if r['own'] and tgt[1] in own_spellings(cm, n):
                continue
            return False
        if tgt[0] == 'path' and tgt[1] not in r['paths']:
            return False
    # dump targets must not collide, and nobody else's explicit alias may shadow a dumped own-name key
    tg = [json.dumps(canon_key(r['dump'][1] if r['dump'][0] == 'key' else r['dump'][1][0])) for r in rules.values()]
    if len(set(tg)) != len(tg):
        return False
    for n, r in rules.items():
        if r['own']:
            sp = set(own_spellings(cm, n))
            for n2, r2 in rules.items():
                if n2 != n and sp & set(r2['keys']):
                    return False
    return True


# ------------------------------------------------------------------ documents

def place(doc, comps, v, rng, lists=True):
    cur = doc
    for i, c in enumerate(comps):
        last = i == len(comps) - 1
        nxt = v if last else None
        if isinstance(cur, list):
            # c is a non-negative int index chosen when the list was created
            if last:
                cur[c] = v
            else:
                if cur[c] is None:
                    cur[c] = new_container(comps[i + 1], rng, lists)
                cur = cur[c]
            continue
        if last:
            cur[c] = v
        else:
            if c not in cur or not isinstance(cur[c], (dict, list)):
                cur[c] = new_container(comps[i + 1], rng, lists)
            cur = cur[c]
            if isinstance(cur, list) and not (type(comps[i + 1]) is int and 0 <= comps[i + 1] < len(cur)):
                cur2 = {}
                # incompatible with an existing list: fall back to a dict (replaces it)
                parent = doc
                for c2 in comps[:i]:
                    parent = parent[c2]
                parent[c] = cur2
                cur = cur2
    return doc


def new_container(next_comp, rng, lists):
    if lists and type(next_comp) is int and 0 <= next_comp <= 8 and rng.random() < 0.5:
        return [None] * (next_comp + 1 + rng.randint(0, 1))
    return {}


_WORD_RE = None


def _alias_words(s):
    """the ASCII words of an alias text (split at separators and at lower->Upper boundaries)"""
    global _WORD_RE
    if _WORD_RE is None:
        import re
        _WORD_RE = re.compile(r'[A-Z]+(?![a-z])|[A-Z]?[a-z]+[0-9]*|[0-9]+')
    return [w.lower() for w in _WORD_RE.findall(s)] if s.isascii() else []


def _squash(s):
    return ''.join(ch for ch in s.lower() if ch.isalnum())


def near_miss_keys(cm, rules=None):
    """Keys that are NOT a documented spelling of anything in the class, but are one key transform away from one of
    its explicit aliases / path heads: the other letter-casings of every alias text (aliases are matched literally, so
    these are unknown keys).  Anything that could be read as a spelling of a *field name* (however loosely: compared
    without separators and case) is left out, as is every explicit key and every top-level path component."""
    rules = rules or ref_rules(cm)
    texts, taken, fieldish = [], set(), set()
    for n, r in rules.items():
        fieldish.add(_squash(n))
        taken.update(own_spellings(cm, n))
        for k in r['keys']:
            taken.add(k)
            texts.append(k)
        for p in r['paths']:
            taken.add(p[0])
            if isinstance(p[0], str):
                texts.append(p[0])
    for f in cm['fields']:
        for k in [f.get('dumpa')] + list(f.get('keys') or []) + list(f.get('load') or []):
            if isinstance(k, str):
                taken.add(k)
    out = []
    for t in texts:
        ws = _alias_words(t)
        cands = [t.upper(), t.lower(), t.title(), t.swapcase()]
        if ws:
            name = '_'.join(ws)
            cands += [CASE_FN[c](name) for c in DEFAULT_ENGINE_CASINGS]
        for c in cands:
            if c != t and c not in taken and c not in out and _squash(c) not in fieldish and _squash(c) != '':
                out.append(c)
    return out


def gen_docs(cm, rng, n_docs):
    """-> list of (kind, doc) ; values are distinct ints so the winning key is identifiable"""
    rules = ref_rules(cm)
    near = near_miss_keys(cm, rules)
    docs = []
    counter = [100]

    def val():
        counter[0] += 1
        return counter[0]

    def targets(n):
        r = rules[n]
        t = [('key', k) for k in r['keys']] + [('path', p) for p in r['paths']]
        own = [('key', s) for s in own_spellings(cm, n)] if r['own'] else []
        return t, own

    for di in range(n_docs):
        kind = ['single', 'multi', 'absent', 'noise', 'single', 'multi'][di % 6]
        items = []
        for f in cm['fields']:
            n = f['name']
            exp, own = targets(n)
            allt = exp + own
            if not allt:
                continue
            if kind == 'absent' and rng.random() < 0.5:
                if rng.random() < 0.5 and rules[n]['paths']:
                    p = rules[n]['paths'][0]
                    if len(p) > 1:
                        items.append((('path', p[:-1]), rng.choice([val(), {}, {'zz': val()}])))    # only a prefix of the path
                continue
            if kind == 'multi' and len(allt) > 1 and rng.random() < 0.8:
                pick = rng.sample(allt, rng.randint(2, min(4, len(allt))))
            else:
                pick = [rng.choice(exp)] if exp and rng.random() < 0.75 else [rng.choice(allt)]
            for t in pick:
                items.append((t, val()))
        if kind == 'noise':
            items.append((('key', rng.choice(['unknown', 'Zz9', '', 'un known', '9'])), val()))
        # unknown keys one key transform away from an alias of this class (any document of the history may carry them:
        # what an earlier document contained must not change where a later one's keys go)
        if near and rng.random() < (0.75 if kind == 'noise' else 0.3):
            for k in rng.sample(near, min(len(near), rng.randint(1, 3))):
                items.append((('key', k), val()))
        rng.shuffle(items)
        doc = {}
        for (tk, tv), v in items:
            if tk == 'key':
                doc[tv] = v
            else:
                place(doc, tv, v, rng)
        docs.append((kind, doc))
    return docs


# ------------------------------------------------------------------ canonical forms / encoders

def canon_key(k):
    if k is True or k is False:
        return {'b': k}
    if isinstance(k, int):
        return {'i': k}
    if isinstance(k, float):
        return {'f': repr(k)}
    if isinstance(k, str):
        return {'s': k}
    return {'x': repr(k)}


def enc_doc(d):
    """typed, order-preserving encoding of a document for the Lean driver"""
    if isinstance(d, dict):
        return {'o': [[canon_key(k), enc_doc(v)] for k, v in d.items()]}
    if isinstance(d, list):
        return {'a': [enc_doc(v) for v in d]}
    if d is None:
        return {'n': 0}
    if isinstance(d, bool) or not isinstance(d, int):
        return {'x': repr(d)}
    return {'v': d}


def canon_doc(e):
    """order-insensitive canonical form of an encoded document"""
    if 'o' in e:
        items = [[k, canon_doc(v)] for k, v in e['o']]
        items.sort(key=lambda kv: json.dumps(kv[0], sort_keys=True))
        return {'o': items}
    if 'a' in e:
        return {'a': [canon_doc(v) for v in e['a']]}
    return e


def enc_path(p):
    if p['style'] == 'text':
        return {'text': p['text']}
    return {'comps': [canon_key(c) for c in p['comps']]}


def enc_class(cm):
    fs = []
    for f in cm['fields']:
        e = {'name': f['name'], 'dflt': f['dflt'], 'form': f['form'], 'ann': bool(f.get('ann'))}
        form = f['form']
        if form in ('json_field', 'ann_key', 'meta_key'):
            e.update(keys=f['keys'], all=bool(f['all']), dump=f['dump'] is not False)
        elif form in ('path_field', 'ann_path'):
            e.update(path=enc_path(f['path']), all=f['all'] is not False, dump=f['dump'] is not False)
        elif form == 'alias_all':
            e.update(keys=f['keys'], skip=bool(f['skip']))
        elif form == 'alias_ld':
            e.update(load=f['load'], dumpa=f['dumpa'], skip=bool(f['skip']))
        elif form == 'alias_path':
            e.update(paths=[enc_path(p) for p in f['paths']], mode=f['mode'], skip=bool(f['skip']))
        fs.append(e)
    m = cm['meta']
    em = {'dump_case': dump_case_of(cm)}
    if cm['engine'] == 'default':
        em['load_case'] = m.get('load_case') or 'SNAKE'
        kf = m.get('key_to_field')
        em['meta_keys'] = kf['entries'] if kf else []
        em['meta_all'] = bool(kf and kf['all'])
    else:
        em['key_case'] = m.get('v1_key_case') or 'NONE'
        fa = m.get('field_to_alias')
        em['meta_aliases'] = [[n, ks] for n, ks, _h in fa['entries']] if fa else []
        em['meta_load'] = bool(fa) and fa['load'] is not False
        em['meta_dump'] = bool(fa) and fa['dump'] is not False
    return {'engine': cm['engine'], 'fields': fs, 'meta': em}


# ------------------------------------------------------------------ implementation runners

def impl_load(Cls, cm, doc):
    from dataclass_wizard.errors import JSONWizardError
    try:
        o = Cls.from_dict(copy.deepcopy(doc))
    except JSONWizardError:
        return {'err': 1}
    except Exception as e:                     # noqa
        return {'exc': type(e).__name__}
    return {'ok': sorted([f['name'], enc_doc(getattr(o, f['name']))] for f in cm['fields'])}


def impl_dump(Cls, cm, vals):
    try:
        o = Cls(**vals)
        d = o.to_dict()
    except Exception as e:                     # noqa
        return {'exc': type(e).__name__}, None
    return {'ok': canon_doc(enc_doc(d))}, d


def model_canon(o):
    if o is None:
        return None
    if 'err' in o:
        return {'driver_error': o['err']}
    r = o['r']
    if 'ok' in r and isinstance(r['ok'], dict):
        return {'ok': canon_doc(r['ok'])}
    if 'ok' in r:
        return {'ok': sorted(r['ok'])}
    return r


# ------------------------------------------------------------------ known-finding attribution

def dump_key(cm, field):
    """known-finding class of a wrong dump target of `field` (None = not attributable)"""
    f = next(x for x in cm['fields'] if x['name'] == field)
    if f['form'] == 'meta_key' and f.get('dump') is False:
        return 'remapping-metadata-dump-false-ignored'
    if '' in (f.get('keys') or [])[:1] and f.get('all'):
        return 'empty-alias-dumped-as-path'
    return None


def lost_path_fields(cm):
    pf = [f for f in cm['fields'] if f['form'] in ('path_field', 'ann_path')]
    unreg = [f for f in pf if f['all'] is False or f['dump'] is False]
    return unreg if len(unreg) < len(pf) else []


def has_all_false_path(cm):
    """the class has a path field that the dump set-up does not register (all=False or dump=False) next to one it
    does register: DATACLASS_FIELD_TO_JSON_PATH is shared by both directions and filled only while empty, so after a
    dump-before-first-load the former's path is unknown to the loader"""
    pf = [f for f in cm['fields'] if f['form'] in ('path_field', 'ann_path')]
    unreg = [f for f in pf if f['all'] is False or f['dump'] is False]
    return bool(unreg) and len(unreg) < len(pf)


# ------------------------------------------------------------------ run

def run(ctx: C.Ctx, rng=None):
    rng = rng or ctx.rng
    logging.getLogger('dataclass_wizard').setLevel(logging.ERROR)
    ctx.rule += (' | end to end: class models of 2..4 int fields over every documented alias / path form of both engines '
                 '(one / several aliases, all, dump=False, skip, paths of depth 1..4 with quoted / int / bool / float components, '
                 'alias text equal to another field\'s name, Meta mappings, key transforms) x documents carrying one spelling per '
                 'field, several listed aliases of one field with different values in shuffled order, absent fields, path prefixes, '
                 'unknown keys: fromdict / to_dict / load(dump(x)) against the documentation reference and the Lean model. '
                 'Non-trivial = distinct (class, document).')
    ncls = ctx.quick(1600, 16000)
    ndocs = ctx.quick(6, 8)
    reqs, pend = [], []
    for ci in range(ncls):
        engine = 'default' if ci % 2 == 0 else 'v1'
        try:
            cm = gen_class(rng, engine)
        except IndexError:
            ctx.count('e2e:gen_retry')
            continue
        docs = gen_docs(cm, rng, ndocs)
        vals = {f['name']: 1000 + 10 * k + rng.randint(0, 9) for k, f in enumerate(cm['fields'])}
        idx = 100000 + ci
        if not ctx.begin_case(idx):
            if ctx.done(idx):
                break
            continue
        if ctx.done(idx):
            break
        evaluate(ctx, cm, docs, vals, reqs, pend)
    if ctx.model_available and reqs:
        outs = ctx.driver.run(reqs)
        for (kind, case, impl), o in zip(pend, outs):
            ctx.agree(kind, case, impl, model_canon(o))


def build(cm):
    cname = model.fresh('A')
    src = render_class(cm, cname)
    built = build_module(cm, src)
    return built, built.get(cname), shown_src(cm, src)


def evaluate(ctx, cm, docs, vals, reqs, pend):
    engine = cm['engine']
    try:
        built, Cls, src = build(cm)
    except Exception as e:                     # noqa
        ctx.count('e2e:build_error')
        ctx.notes.setdefault('e2e_build_errors', []).append(repr(e)[:200])
        return
    try:
        ecls = enc_class(cm)
        order = ['dump', 'load'] if cm['first_op'] == 'dump' else ['load', 'dump']
        for op in order:
            if op == 'dump':
                do_dump(ctx, cm, Cls, ecls, vals, reqs, pend, src)
            else:
                for kind, doc in docs:
                    do_load(ctx, cm, Cls, ecls, kind, doc, reqs, pend, src)
    finally:
        built.close()


def do_load(ctx, cm, Cls, ecls, kind, doc, reqs, pend, src):
    engine = cm['engine']
    case = {'cm': cm, 'doc': enc_doc(doc), 'kind': kind}
    got = impl_load(Cls, cm, doc)
    ref = ref_load(cm, doc)
    ctx.seen(f'e2e:{engine}:load:{kind}', case)
    lost = lost_path_fields(cm) if (engine == 'default' and cm['first_op'] == 'dump') else []
    KEY = 'path-lost-when-dumped-before-first-load'
    key = KEY if any(f['dflt'] is None for f in lost) else None       # a required field whose path is lost: the load fails
    if ref[0] == 'err':
        if 'ok' in got:
            _fail(ctx, f'oracle:{engine}:load', case, f'a required field has no value under any of its keys / paths (or a path runs into a '
                     f'non-container), yet the load succeeded: {got}', key=(KEY if lost else None), detail=src)
    elif 'ok' not in got and '__unjudged__' in ref[1]:
        pass
    elif 'ok' not in got:
        _fail(ctx, f'oracle:{engine}:load', case, f'every required field is present under a documented key / path, yet the load failed: {got}',
                 key=key, detail=src)
    else:
        gotd = dict((n, v) for n, v in got['ok'])
        for n, acc in ref[1].items():
            if acc is None:
                continue
            gv = gotd[n]
            if 'v' not in gv or gv['v'] not in acc:
                key = KEY if any(f['name'] == n for f in lost) else None
                _fail(ctx, f'oracle:{engine}:load', dict(case, field=n),
                         f'field {n}: loaded {gv}, the documented sources give {sorted(acc)} '
                         f'({"first listed alias / path wins" if engine == "v1" else "alias / casing / path"})', key=key, detail=src)
                break
    if ctx.model_available:
        reqs.append({'op': 'c08', 'action': 'load', 'cls': ecls, 'doc': case['doc'], 'dump_first': cm['first_op'] == 'dump'})
        if 'exc' in got:
            got = {'err': 1}
        pend.append((f'e2e:{engine}:load', case, got))


def do_dump(ctx, cm, Cls, ecls, vals, reqs, pend, src):
    engine = cm['engine']
    case = {'cm': cm, 'vals': vals}
    got, raw = impl_dump(Cls, cm, vals)
    ctx.seen(f'e2e:{engine}:dump', case)
    exp = canon_doc(enc_doc(ref_dump(cm, vals)))
    rules = ref_rules(cm)
    if got.get('ok') != exp:
        # attribute to the first field whose target is wrong
        where_got = _locations(got['ok']) if 'ok' in got else {}
        where_exp = _locations(exp)
        bads = [f['name'] for f in cm['fields'] if where_got.get(vals[f['name']]) != where_exp.get(vals[f['name']])]
        bad = bads[0] if bads else None
        key = None
        for b in bads:                      # a wrongly dumped field can displace another one: name the root cause
            if dump_key(cm, b):
                bad, key = b, dump_key(cm, b)
                break
        if key is None and 'ok' in got and _collides(rules):
            key = 'skip'                    # colliding dump targets: no documented outcome
        if key != 'skip':
            _fail(ctx, f'oracle:{engine}:dump', dict(case, field=bad),
                     f'to_dict() = {got}, the documented targets give {exp} (field {bad}: {rules[bad]["dump"] if bad else None})',
                     key=key, detail=src)
    if ctx.model_available:
        reqs.append({'op': 'c08', 'action': 'dump', 'cls': ecls, 'vals': [[n, v] for n, v in vals.items()],
                     'dump_first': cm['first_op'] == 'dump'})
        pend.append((f'e2e:{engine}:dump', case, got if 'ok' in got else {'err': 1}))
    # the round-trip law
    if raw is not None and two_way(cm):
        back = impl_load(Cls, cm, raw)
        ctx.seen(f'e2e:{engine}:roundtrip', case)
        want = {'ok': sorted([n, {'v': v}] for n, v in vals.items())}
        if back != want:
            _fail(ctx, f'oracle:{engine}:roundtrip', case, f'load(dump(x)) = {back}, x = {vals}; dump = {got}',
                     key=('path-lost-when-dumped-before-first-load' if engine == 'default' and has_all_false_path(cm) and cm['first_op'] == 'dump' else None),
                     detail=src)


def _fail(ctx, kind, case, what, key=None, detail=None):
    """record at most a handful of failures per known-finding class, so that they can never crowd a new failure
    out of the bounded failure list"""
    if key is not None:
        seen = ctx.notes.setdefault('e2e_keyed_failures', {})
        seen[key] = seen.get(key, 0) + 1
        if seen[key] > 5:
            return
    ctx.fail(kind, case, what, key=key, detail=detail)


def _collides(rules):
    tg = [json.dumps(canon_key(r['dump'][1] if r['dump'][0] == 'key' else r['dump'][1][0]))
          for r in rules.values() if r['dump'][0] != 'none']
    return len(set(tg)) != len(tg)


def _locations(cd, prefix=()):
    """value -> key path, of a canonical document whose leaves are distinct ints"""
    out = {}
    if 'o' in cd:
        for k, v in cd['o']:
            out.update(_locations(v, prefix + (json.dumps(k, sort_keys=True),)))
    elif 'v' in cd:
        out[cd['v']] = prefix
    return out


def _contains(big, small):
    """every entry of the canonical doc `small` is in `big` (recursively)"""
    if 'o' in small:
        if 'o' not in big:
            return False
        bd = {json.dumps(k, sort_keys=True): v for k, v in big['o']}
        for k, v in small['o']:
            kk = json.dumps(k, sort_keys=True)
            if kk not in bd or not _contains(bd[kk], v):
                return False
        return True
    return big == small


# ------------------------------------------------------------------ replay

def _dec_key(k):
    if 'b' in k:
        return k['b']
    if 'i' in k:
        return k['i']
    if 'f' in k:
        return float(k['f'])
    return k['s']


def dec_doc(e):
    if 'o' in e:
        return {_dec_key(k): dec_doc(v) for k, v in e['o']}
    if 'a' in e:
        return [dec_doc(v) for v in e['a']]
    if 'n' in e:
        return None
    return e['v']


def replay(obj):
    C.setup_repo_path()
    logging.getLogger('dataclass_wizard').setLevel(logging.ERROR)
    kind, case = obj['kind'], obj['case']
    cm = case['cm']
    built, Cls, src = build(cm)
    try:
        if kind.endswith(':load'):
            doc = dec_doc(case['doc'])
            if cm['first_op'] == 'dump':
                impl_dump(Cls, cm, {f['name']: 1 for f in cm['fields']})
            got = impl_load(Cls, cm, doc)
            ref = ref_load(cm, doc)
            bad = False
            if ref[0] == 'err':
                bad = 'ok' in got
            elif 'ok' not in got:
                bad = True
            else:
                gd = dict((n, v) for n, v in got['ok'])
                bad = any(acc is not None and gd[n].get('v') not in acc for n, acc in ref[1].items())
            if 'ok' not in got and ref[0] == 'ok' and '__unjudged__' in ref[1]:
                bad = False
            return dict(violated=bad, got=got, reference=repr(ref), source=src)
        vals = case['vals']
        got, raw = impl_dump(Cls, cm, vals)
        if kind.endswith(':dump'):
            exp = canon_doc(enc_doc(ref_dump(cm, vals)))
            return dict(violated=got.get('ok') != exp, got=got, expected=exp, source=src)
        back = impl_load(Cls, cm, raw) if raw is not None else None
        want = {'ok': sorted([n, {'v': v}] for n, v in vals.items())}
        return dict(violated=back != want, got=back, expected=want, dump=got, source=src)
    finally:
        built.close()
