"""C04 — "Enum by value" over the *kinds* of Enum classes, on the three engines.

The table stream of c04.py loads one plain Enum (a value table).  "Enum by value" is a statement about the Enum class
itself: the member a value denotes is whatever the class gives for it, `E(v)` — and that is more than a lookup in the member
table.  This stream generates Enum classes of every kind the enum module offers:

    plain        Enum with int / str / float members, aliases (two names for one value) included
    mixin        IntEnum / StrEnum / (int, Enum) / (str, Enum)
    missing-ci   str members + a `_missing_` hook that matches the value in another letter case / with blanks stripped
    missing-dflt a `_missing_` hook that maps every other value (of some type) to a designated member
    missing-conv int members + a `_missing_` hook that accepts the digit string of a member value (environment input)
    flag         Flag / IntFlag: a value may be a combination of members that has no name (and that nobody has constructed in
                 this process yet: every case defines its own class, and the reference is evaluated after the load)
    unhashable   member values that are JSON arrays / objects

and loads member values, values only the hook / the flag arithmetic resolves, and values the class rejects, at every nesting
context of c04.py (default engine, v1 engine) and through an EnvWizard class (environment variable for text inputs, keyword
input otherwise).  Oracle: after the load, the stdlib is asked — the outcome of the load is the outcome of `E(v)`: the same
member (same class, same value) or a rejection.  Oracle only (the Lean model knows Enums as value tables).
"""
from __future__ import annotations

import copy
import json
import os
import random

from harness import model
from harness.model import T
from harness.props.c01 import load_outcome

ENUM_BASE = 700000
NAMES = ['RED', 'GREEN', 'DARK_BLUE', 'LOW', 'HIGH', 'UNKNOWN', 'R', 'W', 'X', 'LINE', 'SQUARE', 'Off']

MISSING_CI = ('    @classmethod\n    def _missing_(cls, value):\n        if isinstance(value, str):\n            for m in cls:\n'
              '                if m.value.lower() == value.strip().lower():\n                    return m\n        return None\n')
MISSING_CONV = ('    @classmethod\n    def _missing_(cls, value):\n        if isinstance(value, str) and value.strip().lstrip("-").isdigit():\n'
                '            return cls._value2member_map_.get(int(value))\n        return None\n')


def _missing_dflt(member, only):
    test = {'any': 'True', 'int': 'isinstance(value, int)', 'str': 'isinstance(value, str)'}[only]
    return f'    @classmethod\n    def _missing_(cls, value):\n        return cls.{member} if {test} else None\n'


def gen_enum_kind(rng):
    """-> (enum type node, inputs worth loading)"""
    kind = rng.choice(['plain', 'mixin', 'missing-ci', 'missing-dflt', 'missing-dflt', 'missing-conv', 'flag', 'flag', 'unhashable'])
    name = model.fresh('E')
    names = rng.sample(NAMES, rng.randint(2, 4))
    junk = [3.5, 'nope', None, [9, 9], 77, '', True]
    t = T('enum', name=name, members=[], kind=kind)
    if kind == 'plain':
        pool = [2, 5, 'bee', 'x y', 2.5, 11, 'Zed', 0]
        vals = rng.sample(pool, len(names))
        t['members'] = [[n, v] for n, v in zip(names, vals)]
        if rng.random() < 0.4:
            t['members'].append(['ALIAS_NAME', vals[0]])
        ins = vals + [float(v) for v in vals if type(v) is int] + [str(v) for v in vals if type(v) is int]
    elif kind == 'mixin':
        mx = rng.choice(['IntEnum', 'StrEnum', 'int', 'str'])
        t['mixin'] = mx
        vals = rng.sample([1, 2, 3, 7, -1, 10], len(names)) if mx in ('IntEnum', 'int') else rng.sample(['red', 'Green', 'a b', 'x', '2'], len(names))
        t['members'] = [[n, v] for n, v in zip(names, vals)]
        ins = vals + [str(v) for v in vals] + [float(v) for v in vals if type(v) is int] + [2, '2']
    elif kind == 'missing-ci':
        vals = rng.sample(['red', 'Green', 'dark blue', 'low', 'HIGH', 'off'], len(names))
        if rng.random() < 0.4:
            t['mixin'] = rng.choice(['StrEnum', 'str'])
        t['members'] = [[n, v] for n, v in zip(names, vals)]
        t['body'] = MISSING_CI
        ins = vals + [v.upper() for v in vals] + [v.title() for v in vals] + [' ' + v + ' ' for v in vals] + [v.swapcase() for v in vals]
    elif kind == 'missing-dflt':
        ints = rng.random() < 0.6
        if ints:
            t['mixin'] = rng.choice([None, 'IntEnum', 'int'])
        vals = rng.sample([1, 2, 3, -1, 10], len(names)) if ints else rng.sample(['red', 'green', 'n/a', 'low'], len(names))
        t['members'] = [[n, v] for n, v in zip(names, vals)]
        t['body'] = _missing_dflt(rng.choice(names), rng.choice(['any', 'int' if ints else 'str']))
        ins = vals + [7, 99, -5, 'other', 'RED', '7', 2.0, 4.0]
    elif kind == 'missing-conv':
        t['mixin'] = rng.choice([None, 'IntEnum'])
        vals = rng.sample([1, 2, 3, -1, 10, 40], len(names))
        t['members'] = [[n, v] for n, v in zip(names, vals)]
        t['body'] = MISSING_CONV
        ins = vals + [str(v) for v in vals] + [' ' + str(v) for v in vals] + ['4', '5', 'x1']
    elif kind == 'flag':
        t['mixin'] = rng.choice(['Flag', 'IntFlag'])
        n = len(names)
        bits = [1 << i for i in range(n)]
        if rng.random() < 0.3:
            bits = [b << 1 for b in bits]          # bit 0 is not a member
        t['members'] = [[nm, b] for nm, b in zip(names, bits)]
        if rng.random() < 0.3 and n >= 2:
            t['members'].append(['NAMED_PAIR', bits[0] | bits[1]])
        top = sum(bits)
        ins = bits + [rng.randint(0, top) for _ in range(4)] + [top, 0, top + 1, 2 * top + 2, -1, float(bits[0] | bits[-1])]
    else:
        pool = [[1, 2], [2, 2], [], ['a', [1]], {'w': 1}, {'w': 2, 'h': 3}, [None], 3, 'line']
        vals = rng.sample(pool, len(names))
        t['members'] = [[n, v] for n, v in zip(names, vals)]
        ins = [copy.deepcopy(v) for v in vals] + [[9, 9], {'w': 9}, [2, 1], [1.0, 2.0], (1, 2)]
        ins = [list(v) if isinstance(v, tuple) else v for v in ins]
    return t, ins + [rng.choice(junk)]


def stdlib_outcome(E, v):
    """what the Enum class itself says about `v`"""
    try:
        return ('ok', E(v))
    except Exception as e:        # ValueError (no such member), TypeError (a hook's complaint)
        return ('err', e)


def same_member(g, m):
    return type(g) is type(m) and g == m and g.value == m.value


def judge(ctx, kind, case, E, v, out, leaves, src):
    """`out` = outcome of the load, `leaves(y)` = the loaded values at the Enum positions"""
    if case.get('context') == 'optional' and v is None:
        return                          # None at an Optional position is None, whatever the Enum says
    if isinstance(v, bool) and issubclass(E, int):
        return                          # an Enum that is an int: "bool rejected" for int positions (v1 says so for IntEnum / IntFlag too)
    if case.get('engine') == 'v1' and any(issubclass(E, b) and type(v) is not b for b in (int, str)):
        return                          # v1 reads a position whose class is an int / a str by its int / str rules first (fractional floats rejected, ...)
    exp = stdlib_outcome(E, v)          # evaluated only now: the load must not depend on somebody having constructed E(v) before
    if exp[0] == 'err':
        if out[0] == 'ok':
            got = leaves(out[1])
            if any(isinstance(g, E) for g in got):
                ctx.fail(kind, case, f'{E.__name__}({v!r}) raises {type(exp[1]).__name__}, but the load produced the member {got[0]!r}', detail=src)
        return
    if out[0] == 'err':
        ctx.fail(kind, case, f'Enum by value: {E.__name__}({v!r}) is {exp[1]!r}, but the load raised {type(out[1]).__name__}: {str(out[1])[:160]}',
                 detail=src)
        return
    for g in leaves(out[1]):
        if not same_member(g, exp[1]):
            ctx.fail(kind, case, f'Enum by value: {E.__name__}({v!r}) is {exp[1]!r}, but the load produced {g!r} ({type(g).__name__})', detail=src)
            return


def _env_load(built, cls_name, field, v, via):
    cls = built.get(cls_name)
    if via == 'kwarg':
        out = load_outcome(lambda: cls(**{field: v}))
    else:
        var = field.upper()
        before = os.environ.get(var)
        os.environ[var] = v
        try:
            out = load_outcome(lambda: cls(_reload=True))
        finally:
            if before is None:
                del os.environ[var]
            else:
                os.environ[var] = before
    return ('ok', getattr(out[1], field)) if out[0] == 'ok' else out


def run(ctx, c04, seed):
    from dataclass_wizard import fromdict
    n = ctx.quick(700, 9000)
    for j in range(n):
        i = ENUM_BASE + j
        if ctx.done(i):
            break
        if ctx.only is not None and ctx.only != i:
            continue
        rng = random.Random(f'C04:{ctx.seed}:enum-kinds:{j}')
        et, ins = gen_enum_kind(rng)
        v = rng.choice(ins)
        engine = rng.choice(['default', 'default', 'default', 'v1', 'env', 'env'])
        if not ctx.begin_case(i):
            continue
        case = {'engine': engine, 'enum': et, 'input': repr(v)}
        if engine == 'env':
            # text reaches a bare field from the environment; any value reaches it (or the elements of a list / the values of a
            # dict field) as keyword input
            via = 'environ' if isinstance(v, str) and '\x00' not in v and rng.random() < 0.6 else 'kwarg'
            ck = 'bare' if via == 'environ' else rng.choice(['bare', 'bare', 'list', 'dictval', 'optional'])
            fty = c04.wrap_ty(ck, et, rng)
            nm = model.fresh('c04en')
            field, cls_name = f'{nm}_v', f'Env_{nm}'
            ann = model.ty_src(copy.deepcopy(fty), {et['name']: 'defined above'})
            built = model.Built(fty, extra_src=f'from dataclass_wizard import EnvWizard\nclass {cls_name}(EnvWizard):\n    {field}: {ann}\n')
            case.update(context=ck, via=via)
            try:
                ctx.seen('enum-kinds:env', case, nontrivial=True)
                out = _env_load(built, cls_name, field, v if via == 'environ' else copy.deepcopy(c04.wrap_doc(ck, v)), via)
                judge(ctx, 'enum-kinds:env', case, built.get(et['name']), v, out, lambda y: c04.unwrap(ck, y), dict(src=built.source))
            finally:
                built.close()
            continue
        ck = rng.choice(c04.CONTEXTS)
        fty = c04.wrap_ty(ck, et, rng)
        ty = {'k': 'cls', 'info': {'name': model.fresh('C'), 'fields': [{'name': 'fld'}], 'wizard': engine == 'v1' or rng.random() < 0.5,
                                   'meta': {'v1': True} if engine == 'v1' else None}, 'ftys': [['fld', fty]]}
        case['context'] = ck
        built = model.Built(ty)
        try:
            ctx.seen('enum-kinds:' + engine, case, nontrivial=True)
            doc = json.loads(json.dumps({'fld': c04.wrap_doc(ck, v)}))
            out = load_outcome(lambda: fromdict(built.root, doc))
            judge(ctx, 'enum-kinds:' + engine, case, built.get(et['name']), v, out, lambda y: c04.unwrap(ck, y.fld), dict(src=built.source))
        finally:
            built.close()


