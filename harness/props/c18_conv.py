"""C18, the conversion clause: "The chosen string is converted by the field's type like a JSON value (with comma/equals
splitting for collections)".

The state-machine histories of c18.py use `str` (and Literal) fields only; this stream covers the MAPPING-LIKE field types
- Dict, DefaultDict, TypedDict, a nested dataclass - whose value arrives as one string from any of the four sources
(os.environ, a dotenv file, a secrets file, a str keyword argument), in the `key=value, key=value` shorthand or in the JSON
form.  The values are drawn from an alphabet that contains the separators themselves: a value may contain '=' (base64
padding, URL query strings, DSNs, expressions), ':' '?' '/' and inner blanks, and in the JSON form also ','.

Reference (docs/env_magic.rst `MY_PENCIL='sharpened=Y,  uses_left = 3'`; type_conv.as_dict docstring "split it on `sep` and
then split each result by `kv_sep`"): pairs are separated by ',', a pair is cut at its FIRST '=' - so the key is what
precedes the first '=' and the value everything after it -, both sides are stripped, and each value is converted by the
value type (C04_env).  A later pair with the same key wins.  A pair without '=' is not a documented form.

Every case also goes through the Lean EnvLoader model (op c04 / load): `C18_conversion : chosen string converted as C04_env`.
"""
from __future__ import annotations

import collections
import dataclasses
import json
import os
import random
import shutil
import tempfile

from harness import model
from harness.model import T

CONV_BASE = 1000000

KEYS = ['dsn', 'retries', 'Authorization', 'X-Next', 'k', 'expr', 'a b', 'q']
WORDS = ['host', 'db', 'x', 'y', 'page', '2', 'Basic', 'dXNlcg', 'https://h/p', 'port', '5432', 'a', '1', 'true']
GLUE = ['=', '=', '==', ' = ', ':', '?', '/', ' ', '&', '=?', '']
SOURCES = ['os', 'os', 'dotenv', 'secrets', 'kw']


def rand_value(rng, commas=False):
    """a value that looks like what people put into mappings: words glued by separators, '=' among them"""
    r = rng.random()
    if r < 0.12:
        return rng.choice(WORDS)
    parts = [rng.choice(WORDS)]
    for _ in range(rng.randint(1, 3)):
        parts.append(rng.choice(GLUE + ([',', ', '] if commas else [])))
        parts.append(rng.choice(WORDS + ['']))
    s = ''.join(parts)
    if rng.random() < 0.25:
        s += rng.choice(['=', '=='])          # base64 padding
    return s.strip()


def rand_int(rng):
    return str(rng.choice([0, 3, 10, 5432, -1]))


def shapes(rng):
    """(model type, [(key, kind)] or None for free keys, python check) of a mapping-like field"""
    k = rng.randrange(6)
    if k == 0:
        return T('dict', T('str'), T('str')), None, 'dict'
    if k == 1:
        return T('defaultdict', T('str'), T('str')), None, 'defaultdict'
    if k == 2:
        return T('dict', T('str'), T('int')), 'int', 'dict'
    if k == 3:
        return ({'k': 'typeddict', 'name': model.fresh('TD'), 'fields': [['dsn', T('str'), True], ['retries', T('int'), True], ['q', T('str'), False]]},
                [('dsn', 'str'), ('retries', 'int'), ('q', 'str')], 'typeddict')
    if k == 4:
        return ({'k': 'cls', 'info': {'name': model.fresh('N'), 'fields': [{'name': 'query'}, {'name': 'limit'}], 'wizard': False, 'meta': None},
                 'ftys': [['query', T('str')], ['limit', T('int')]]}, [('query', 'str'), ('limit', 'int')], 'cls')
    return T('optional', T('dict', T('str'), T('str'))), None, 'dict'


def make_case(rng):
    fty, fixed, pyk = shapes(rng)
    form = rng.choice(['short', 'short', 'short', 'json'])
    pairs = []
    if fixed == 'int':
        for key in rng.sample(KEYS, rng.randint(1, 3)):
            pairs.append((key, rand_int(rng), 'int'))
    elif fixed is None:
        for key in rng.sample(KEYS, rng.randint(1, 3)):
            pairs.append((key, rand_value(rng, commas=(form == 'json')), 'str'))
    else:
        for key, kind in fixed:
            if key == 'q' and rng.random() < 0.5:
                continue
            pairs.append((key, rand_int(rng) if kind == 'int' else rand_value(rng, commas=(form == 'json')), kind))
        rng.shuffle(pairs)
    if form == 'json':
        value = rng.choice(['', ' ']) + json.dumps({k: v for k, v, _ in pairs})
    else:
        pad = lambda: rng.choice(['', '', ' ', '  '])
        value = ','.join(pad() + k + pad() + '=' + pad() + v + pad() for k, v, _ in pairs)
    expect = {k: (int(v) if kind == 'int' else v) for k, v, kind in pairs}
    if form == 'short':
        # the reference reading of the string that was actually written (first '=' of each pair)
        expect2 = {}
        for pair in value.split(','):
            k, v = pair.split('=', 1)
            expect2[k.strip()] = v.strip()
        assert {k: str(v) for k, v in expect.items()} == expect2, (value, expect, expect2)
    source = rng.choice(SOURCES)
    return fty, pyk, form, value, expect, source


# --------------------------------------------------------------------------- leaf types in positions ("converted by the field's type")

LEAF_BASE = 2000000

# leaf kind -> (spellings as they stand in an environment, the documented result).  bytes / bytearray: the Environment
# loader encodes the string (EnvLoader.load_to_bytes / load_to_byte_array, utf-8) - a string is all an environment can
# hold, so "converted by the field's type" can only mean that for them.
TEXT = ['abc', 's3cr3t-key', 'pepper', 'Zm9v', 'a b', 'x', 'ü-ß', 'k:v/w', 'A_B', 'p@ss!']
LEAVES = {
    'str': (TEXT, lambda s: s),
    'bytes': (TEXT, lambda s: s.encode('utf-8')),
    'bytearray': (TEXT, lambda s: bytearray(s.encode('utf-8'))),
    'int': (['0', '7', '-12', '5432'], int),
    'float': (['1.5', '-0.25', '3.0'], float),
    'bool': (['true', 'false', 'TRUE', '1', '0'], lambda s: s.upper() in ('TRUE', '1')),
}


def leaf_contexts(eng, kind):
    """the positions of c04_engines.ENV_CONTEXTS a leaf of this kind can stand in (key positions and the tuple parsers - with
    their own known finding, C04 - left out; an unhashable leaf cannot be a set member)"""
    out = []
    for ck, (_, _, _, flags) in eng.ENV_CONTEXTS.items():
        if 'key' in flags or 'tuple' in flags or ck.startswith('namedtuple'):
            continue
        if ck == 'set' and kind == 'bytearray':
            continue
        out.append(ck)
    return out


def make_leaf_case(eng, rng):
    kind = rng.choice(['bytes', 'bytes', 'bytearray', 'bytearray', 'str', 'int', 'float', 'bool'])
    ck = rng.choice(leaf_contexts(eng, kind))
    mk_ty, mk_val, unwrap, flags = eng.ENV_CONTEXTS[ck]
    vals, conv = LEAVES[kind]
    v = rng.choice(vals)
    return kind, ck, mk_ty(T(kind)), mk_val(v), unwrap, conv(v), rng.choice(SOURCES)


def same_leaf(got, exp):
    return type(got) is type(exp) and got == exp


def run_leaves(ctx, eng):
    """a field of a leaf type - bare, Optional, in the comma / k=v shorthand of a collection, inside a JSON form, inside a
    nested dataclass / TypedDict - fed from each of the four sources: every leaf of the result is the documented conversion of
    the string that was written for it, whatever the position and the source"""
    n = ctx.quick(220, 3000)
    reqs, pend = [], []
    for j in range(n):
        i = LEAF_BASE + j
        if ctx.done(i):
            break
        if ctx.only is not None and ctx.only != i:
            continue
        rng = random.Random(f'C18:{ctx.seed}:leaf:{j}')
        kind, ck, fty, value, unwrap, exp, source = make_leaf_case(eng, rng)
        if not ctx.begin_case(i):
            continue
        case = {'conversion': True, 'leaf': kind, 'context': ck, 'ty': fty, 'source': source, 'value': value}
        tmp = tempfile.mkdtemp(prefix='dwv_c18l_')
        eb = eng.EnvBuilt(fty)
        try:
            ctx.seen('conversion:leaf', case)
            before = dict(os.environ)
            out = load_from(eb, source, value, tmp)
            if dict(os.environ) != before:
                ctx.fail('os-untouched', case, f'os.environ differs after the instantiation (value from {source})')
            src = dict(src=eb.source)
            if out[0] == 'err':
                ctx.fail('conversion:leaf', case, f'{value!r} (from {source}) for a {kind} leaf in position {ck}: the documented conversion gives {exp!r} '
                         f'at every leaf, but the instantiation raised {type(out[1]).__name__}: {str(out[1])[:240]}', detail=src)
            else:
                try:
                    leaves = unwrap(out[1])
                except Exception as e:
                    leaves = None
                    ctx.fail('conversion:leaf', case, f'{value!r} (from {source}) in position {ck} loaded as {out[1]!r}: not the shape of the field '
                             f'type ({type(e).__name__})', detail=src)
                if leaves is not None and (not leaves or not all(same_leaf(g, exp) for g in leaves)):
                    ctx.fail('conversion:leaf', case, f'{value!r} (from {source}) for a {kind} leaf in position {ck} loaded as {out[1]!r}; the documented '
                             f'conversion gives {exp!r} at every leaf', detail=src)
            reqs.append({'op': 'c04', 'fn': 'load', 'ty': model.enc_ty(fty), 'val': value, 'std': eng.env_std(value)})
            pend.append((case, out, eb.built))
        finally:
            eb.close()
            shutil.rmtree(tmp, ignore_errors=True)
    if ctx.model_available and reqs:
        outs = ctx.driver.run(reqs)
        for (case, out, built), o in zip(pend, outs):
            eng.compare_env(ctx, 'conversion:leaf', case, out, o, built)


def load_from(eb, source, value, tmp):
    """instantiate the one-field EnvWizard class of `eb` with `value` coming from `source`; os.environ restored"""
    from harness.props.c01 import load_outcome
    cls = eb.built.get(eb.cls_name)
    if source == 'os':
        return eb.load(value)
    if source == 'dotenv':
        path = os.path.join(tmp, 'conv.env')
        with open(path, 'w') as fh:
            fh.write(f'{eb.var}={value}\n')
        out = load_outcome(lambda: cls(_reload=True, _env_file=path))
    elif source == 'secrets':
        d = os.path.join(tmp, 'secrets')
        os.mkdir(d)
        with open(os.path.join(d, eb.var), 'w') as fh:
            fh.write(value)
        out = load_outcome(lambda: cls(_reload=True, _secrets_dir=d))
    else:
        out = load_outcome(lambda: cls(_reload=True, **{eb.field: value}))
    if out[0] == 'ok':
        out = ('ok', getattr(out[1], eb.field))
    return out


def as_plain(y, pyk):
    """(type ok?, the mapping as a plain dict)"""
    if pyk == 'cls':
        return dataclasses.is_dataclass(y), ({f.name: getattr(y, f.name) for f in dataclasses.fields(y)} if dataclasses.is_dataclass(y) else None)
    if pyk == 'defaultdict':
        return type(y) is collections.defaultdict, dict(y) if isinstance(y, dict) else None
    return type(y) is dict, dict(y) if isinstance(y, dict) else None


def run(ctx, eng):
    from harness import ref
    n = ctx.quick(260, 4000)
    reqs, pend = [], []
    for j in range(n):
        i = CONV_BASE + j
        if ctx.done(i):
            break
        if ctx.only is not None and ctx.only != i:
            continue
        rng = random.Random(f'C18:{ctx.seed}:conv:{j}')
        fty, pyk, form, value, expect, source = make_case(rng)
        if not ctx.begin_case(i):
            continue
        case = {'conversion': True, 'field_type': pyk, 'ty': fty, 'form': form, 'source': source, 'value': value}
        tmp = tempfile.mkdtemp(prefix='dwv_c18c_')
        eb = eng.EnvBuilt(fty)
        try:
            ctx.seen('conversion', case)
            before = dict(os.environ)
            out = load_from(eb, source, value, tmp)
            if dict(os.environ) != before:
                ctx.fail('os-untouched', case, f'os.environ differs after the instantiation (value from {source})')
            src = dict(src=eb.source)
            if out[0] == 'err':
                ctx.fail('conversion', case, f'{value!r} (from {source}) for a {pyk} field: the documented reading is {expect!r}, but the instantiation raised '
                         f'{type(out[1]).__name__}: {str(out[1])[:240]}', detail=src)
            else:
                ok, got = as_plain(out[1], pyk)
                if not ok or not ref.same_typed(got, expect) or (pyk in ('dict', 'defaultdict') and list(got) != list(expect)):
                    ctx.fail('conversion', case, f'{value!r} (from {source}) for a {pyk} field loaded as {out[1]!r}; the documented reading (pairs cut at '
                             f'their first "=", stripped) is {expect!r}', detail=src)
            reqs.append({'op': 'c04', 'fn': 'load', 'ty': model.enc_ty(fty), 'val': value, 'std': eng.env_std(value)})
            pend.append((case, out, eb.built))
        finally:
            eb.close()
            shutil.rmtree(tmp, ignore_errors=True)
    if ctx.model_available and reqs:
        outs = ctx.driver.run(reqs)
        for (case, out, built), o in zip(pend, outs):
            eng.compare_env(ctx, 'conversion', case, out, o, built)
    run_leaves(ctx, eng)
