"""C16 — field properties get their declared default through the setter, in every style.

Class bodies are data (a list of members over a small annotation grammar).  Each case is a module with 1..3 classes
declared in sequence, rendered to real source with `metaclass=property_wizard`, executed in a forked child of the
pristine parent (so a case sees exactly the global state its own classes create), and observed through
`inspect.signature(cls.__init__)`, recording setters, getters, a second instance and the class `__dict__`.

A case may also define module-level objects between its classes (`gen_env`): Field carriers shared by several property
fields (a generic `Annotated` alias, a `field(..)` constant), names that string annotations refer to and that are unbound /
bound / re-bound / deleted between the class definitions, and subclasses of `property` used as the decorator.  Each class is
judged as if it were the only one: by what its own source text means at the moment the class is created.

A second stream ("histories of equal-comparing annotations", see gen_perm_case) declares several classes whose annotations
are orders / spellings of shared member pools: Python identifies such annotations (==, hash), the implied default does not.

  oracle          the property statement, computed by the harness from the declaration plan with stdlib introspection
                  (typing.get_origin / get_args, calling the annotated class) — never through the library; declared
                  defaults of Field objects are read from a registry filled when the source creates them, and every
                  registered Field is compared with its declared options after each class (a user's Field is a
                  declaration that other fields / classes may share);
  correspondence  the same members through the Lean model (`op: "c16"`), observables diffed;
  law check       the model's `T()` table against CPython.
"""
from __future__ import annotations

import itertools
import json
import os
import random
import sys
import time
import traceback
import types

from harness import common as C

KEY_UNDER_PLAIN = 'under-property-plain-default-factory-type'

PRELUDE = '''
import abc, collections, collections.abc, dataclasses, datetime, functools, typing
from dataclasses import dataclass
from dataclass_wizard import property_wizard
class UL(list): pass
class UO: pass
class UR:
    def __init__(self, a): self.a = a
SH = [['sh', k] for k in range(4)]
LAM = [(lambda k: (lambda: ['lam', k]))(k) for k in range(4)]
LOG = []
REG = {}
ABSENT = object()
TV = typing.TypeVar('TV')
# every dataclasses.Field the case's source creates is registered with the options it was declared with (the oracle reads
# declared defaults from here, never from the live object, and compares the live object with it after every class)
FIELDS = []
FIELD_OPTS = ('default', 'default_factory', 'init', 'repr', 'hash', 'compare', 'metadata')
def field(**kw):
    f = dataclasses.field(**kw)
    FIELDS.append([f, {a: getattr(f, a) for a in FIELD_OPTS}, 'field(%s)' % ', '.join(sorted(kw)), set()])
    return f
# decorators a user may put on the setter function of a property (below `@x.setter`): while a decorated setter runs, VIA
# holds one entry per decorator it was entered through; a setter written under k decorators that finds another depth was
# reached around (some of) them and says so in BYPASS
VIA = []
BYPASS = []
def TRW(fn):
    """the ordinary way to write a decorator: functools.wraps (sets __wrapped__, copies __name__ / __doc__ / __dict__)"""
    @functools.wraps(fn)
    def checked(self, v):
        VIA.append(fn)
        try:
            return fn(self, v)
        finally:
            VIA.pop()
    return checked
def TRC(fn):
    """a bare closure: nothing of `fn` is copied but its name"""
    def inner(self, v):
        VIA.append(fn)
        try:
            return fn(self, v)
        finally:
            VIA.pop()
    inner.__name__ = fn.__name__
    return inner
# user-defined subclasses of `property`
class PS0(property): pass
class PS1(property):
    """remembers the name it was bound to"""
    def __set_name__(self, owner, name): self.bound_name = name
class PS2(property):
    def __init__(self, fget=None, fset=None, fdel=None, doc=None):
        super().__init__(fget, fset, fdel, doc)
        self.tag = 'ps2'
'''

PROP_CLASSES = ['property', 'PS0', 'PS1', 'PS2', 'abc.abstractproperty']

ATOMS = {
    'int': 'int', 'str': 'str', 'float': 'float', 'bool': 'bool', 'bytes': 'bytes', 'tuple': 'tuple',
    'frozenset': 'frozenset', 'list': 'list', 'dict': 'dict', 'set': 'set',
    'defaultdict': 'collections.defaultdict', 'ordereddict': 'collections.OrderedDict', 'counter': 'collections.Counter',
    'userList': 'UL', 'deque': 'collections.deque', 'bytearray': 'bytearray', 'userObj': 'UO',
    'datetime': 'datetime.datetime', 'userReq': 'UR', 'abcSeq': 'collections.abc.Sequence',
}
LDS_ATOMS = ['list', 'dict', 'set', 'defaultdict', 'ordereddict', 'counter', 'userList']
MUTABLE_ATOMS = ['list', 'dict', 'set', 'defaultdict', 'ordereddict', 'counter', 'userList', 'deque', 'bytearray', 'userObj']

BARE = [('typing.List', 'list', False), ('typing.Dict', 'dict', False), ('typing.Set', 'set', False),
        ('typing.FrozenSet', 'frozenset', False), ('typing.Tuple', 'tuple', False), ('typing.DefaultDict', 'defaultdict', True),
        ('typing.OrderedDict', 'ordereddict', True), ('typing.Counter', 'counter', True), ('typing.Deque', 'deque', True),
        ('typing.Sequence', 'abcSeq', True)]

GENERIC = [('typing.List[int]', 'list', False), ('typing.List[typing.Union[int, str]]', 'list', False),
           ("typing.List['Nope']", 'list', False), ('typing.Dict[str, int]', 'dict', False), ('typing.Set[bool]', 'set', False),
           ('typing.FrozenSet[int]', 'frozenset', False), ('typing.Tuple[int, str]', 'tuple', False),
           ('typing.Tuple[int, ...]', 'tuple', False), ('typing.DefaultDict[str, int]', 'defaultdict', True),
           ('typing.OrderedDict[str, int]', 'ordereddict', True), ('typing.Counter[str]', 'counter', True),
           ('typing.Deque[int]', 'deque', True), ('typing.Sequence[int]', 'abcSeq', True),
           ('list[int]', 'list', True), ('dict[str, int]', 'dict', True), ('set[int]', 'set', True),
           ('frozenset[int]', 'frozenset', True), ('tuple[int, ...]', 'tuple', True),
           ('collections.defaultdict[str, int]', 'defaultdict', True), ('collections.OrderedDict[str, int]', 'ordereddict', True),
           ('collections.Counter[str]', 'counter', True), ('collections.deque[int]', 'deque', True),
           ('collections.abc.Sequence[int]', 'abcSeq', True)]

CONCRETE = ['int', 'str', 'float', 'bool', 'list', 'dict', 'set', 'tuple']       # the statement's "concrete" annotations
FACTORY_ATOMS = ['list', 'dict', 'set', 'str', 'int', 'defaultdict', 'ordereddict', 'deque', 'userList', 'userObj', 'tuple']


# --------------------------------------------------------------------------- generators (types, literals, defaults)

def t_atom(a):
    return {'k': 'atom', 'a': a, 'py': ATOMS[a]}


def gen_lit(rng, allow_shared=True):
    r = rng.random()
    if r < 0.2:
        return None
    if r < 0.5:
        return rng.choice([0, 1, 4, 7, -3])
    if r < 0.7:
        return rng.choice(['', 'v', 'r+'])
    if r < 0.85 or not allow_shared:
        return rng.choice([True, False])
    return {'sh': rng.randrange(4)}


def lit_py(l):
    if isinstance(l, dict):
        return 'SH[%d]' % l['sh']
    return repr(l)


def gen_factory(rng):
    if rng.random() < 0.3:
        return {'lam': rng.randrange(4)}
    return {'atom': rng.choice(FACTORY_ATOMS)}


def factory_py(f):
    if 'lam' in f:
        return 'LAM[%d]' % f['lam']
    return ATOMS[f['atom']]


def gen_fieldspec(rng, kind=None):
    """a dataclasses.field(...) call: kind in default / factory / empty"""
    kind = kind or rng.choice(['default', 'default', 'factory', 'factory', 'empty'])
    if kind == 'default':
        l = gen_lit(rng, allow_shared=False)
        return {'default': l}, 'default=%s' % lit_py(l)
    if kind == 'factory':
        f = gen_factory(rng)
        return {'factory': f}, 'default_factory=%s' % factory_py(f)
    return {}, ''


def gen_member_ty(rng, bar_ok):
    """a member of a Union"""
    r = rng.random()
    if r < 0.5:
        return t_atom(rng.choice(list(ATOMS)))
    if r < 0.8:
        py, a, inst = rng.choice(GENERIC)
        return {'k': 'generic', 'a': a, 'inst': inst, 'py': py}
    if r < 0.88:
        return gen_literal(rng)
    if r < 0.94:
        fs, fpy = gen_fieldspec(rng)
        inner = t_atom(rng.choice(CONCRETE))
        return {'k': 'annotated', 't': inner, 'extras': [{'field': fs}], 'py': 'typing.Annotated[%s, field(%s)]' % (inner['py'], fpy)}
    if bar_ok:
        return t_atom(rng.choice(list(ATOMS)))
    return {'k': 'fwdArg', 'py': "'Nope'"}


def gen_literal(rng):
    pool = [0, 1, 2, 'r', 'x', True, False, None]
    n = rng.randint(1, 3)
    vs = []
    for v in rng.sample(pool, 6):
        if all((type(v), v) != (type(w), w) for w in vs):
            vs.append(v)
        if len(vs) == n:
            break
    return {'k': 'literal', 'vs': vs, 'py': 'typing.Literal[%s]' % ', '.join(repr(v) for v in vs)}


def gen_union(rng):
    style = rng.choice(['Union', 'Optional', 'bar', 'barNone', 'UnionNone'])
    bar = style in ('bar', 'barNone')
    n = 1 if style == 'Optional' else rng.randint(1 if style in ('barNone', 'UnionNone') else 2, 3)
    members, seen = [], set()
    for _ in range(12):
        m = gen_member_ty(rng, bar)
        if m['py'] in seen or (bar and m['k'] == 'annotated'):
            continue
        seen.add(m['py'])
        members.append(m)
        if len(members) == n:
            break
    none = {'k': 'none', 'py': 'None'}
    if style == 'Optional':
        return {'k': 'union', 'args': members + [none], 'py': 'typing.Optional[%s]' % members[0]['py']}
    if style == 'Union':
        return {'k': 'union', 'args': members, 'py': 'typing.Union[%s]' % ', '.join(m['py'] for m in members)} if len(members) > 1 else members[0]
    if style == 'UnionNone':
        pos = rng.randint(0, len(members))
        args = members[:pos] + [none] + members[pos:]
        return {'k': 'union', 'args': args, 'py': 'typing.Union[%s]' % ', '.join(m['py'] for m in args)}
    if style == 'bar':
        if len(members) < 2:
            return members[0]
        return {'k': 'union', 'args': members, 'py': ' | '.join(m['py'] for m in members)}
    return {'k': 'union', 'args': members + [none], 'py': ' | '.join(m['py'] for m in members) + ' | None'}


def gen_plain_ty(rng):
    """every annotation kind except Annotated and forward references"""
    r = rng.random()
    if r < 0.22:
        return t_atom(rng.choice(CONCRETE))
    if r < 0.36:
        return t_atom(rng.choice(list(ATOMS)))
    if r < 0.58:
        py, a, inst = rng.choice(GENERIC)
        return {'k': 'generic', 'a': a, 'inst': inst, 'py': py}
    if r < 0.64:
        py, a, inst = rng.choice(BARE)
        return {'k': 'bare', 'a': a, 'inst': inst, 'py': py}
    if r < 0.84:
        return gen_union(rng)
    if r < 0.93:
        return gen_literal(rng)
    if r < 0.97:
        return {'k': 'any', 'py': 'typing.Any'}
    return {'k': 'none', 'py': 'None'}


def gen_annotated(rng, inner=None):
    inner = inner or gen_plain_ty(rng)
    extras, pys = [], []
    for _ in range(rng.randint(1, 3)):
        if rng.random() < 0.7:
            fs, fpy = gen_fieldspec(rng)
            extras.append({'field': fs})
            pys.append('field(%s)' % fpy)
        else:
            extras.append('other')
            pys.append(rng.choice(["'meta'", '123']))
    return {'k': 'annotated', 't': inner, 'extras': extras, 'py': 'typing.Annotated[%s, %s]' % (inner['py'], ', '.join(pys))}


def gen_ty(rng, later_names=(), env=None):
    if env:
        # the case's module-level objects (shared Field carriers, names bound between the classes), see gen_env
        if env.get('ft_types') and rng.random() < 0.3:
            return rng.choice(env['ft_types'])
        if env.get('aliases') and rng.random() < 0.55:
            use = alias_use(rng, rng.choice(env['aliases']))
            if rng.random() < 0.12:
                # the alias named inside a string annotation (a nested unresolved name makes the whole string fail)
                bad = "'Nope'" in use['py'] or has_fwdarg(use)
                return {'k': 'fwd', 't': None if bad else use, 'py': repr(use['py']), 'py_feature': 'alias'}
            return use
    r = rng.random()
    if r < 0.68:
        return gen_plain_ty(rng)
    if r < 0.86:
        if rng.random() < 0.15:
            tgt = t_atom(rng.choice(CONCRETE))
            inner = {'k': 'fwd', 't': tgt, 'py': repr(tgt['py'])} if rng.random() < 0.6 else {'k': 'fwd', 't': None, 'py': "'Nope'"}
            return gen_annotated(rng, inner)
        return gen_annotated(rng)
    # forward reference (a string annotation)
    if rng.random() < 0.45:
        name = rng.choice(['Nope'] + list(later_names))
        return {'k': 'fwd', 't': None, 'py': repr(name)}
    tgt = gen_plain_ty(rng) if rng.random() < 0.8 else gen_annotated(rng)
    if "'Nope'" in tgt['py'] or has_fwdarg(tgt):
        return {'k': 'fwd', 't': None, 'py': repr(tgt['py'])}     # a nested unresolved name makes the whole string fail
    return {'k': 'fwd', 't': tgt, 'py': repr(tgt['py'])}


# --------------------------------------------------------------------------- module-level objects shared by the classes of a case
#
# A case may define, between its classes, objects that several property fields (of one class or of different classes)
# refer to.  Every class is still judged on its own: the model gets, per class, the annotation / default the text means
# at the moment that class is created, and the oracle evaluates the texts itself against the names bound at that moment.
#
#   aliases   HIDk = typing.Annotated[TV, <extras with ONE dataclasses.field(..)>]   used as HIDk[int], HIDk[str], ..
#             (typing copies the metadata tuple: every specialisation carries the very same Field object)
#   privs     PRIVk = field(..)          assigned to the fields of several property fields / several classes
#   fts       FTk                        a name used in string annotations ('FTk', 'typing.List[FTk]', ..) that is
#             unbound, bound, re-bound to another type or deleted between the class definitions (schedule per class)
#   props     the classes written after `@` for properties: `property` or user-defined subclasses of it

FIELD_EXTRA_OPTS = ['repr=False', 'compare=False', 'hash=False', "metadata={'k': 1}"]


def gen_shared_fieldspec(rng):
    """a field(...) call meant to be shared: mostly without default (the default is then implied by each user's type)"""
    fs, fpy = gen_fieldspec(rng, rng.choice(['empty', 'empty', 'empty', 'default', 'factory']))
    opts = rng.sample(FIELD_EXTRA_OPTS, rng.randint(0, 2))
    return fs, ', '.join(([fpy] if fpy else []) + opts)


def gen_alias(rng, name):
    fs, fpy = gen_shared_fieldspec(rng)
    extras, pys = [{'field': fs}], ['field(%s)' % fpy]
    if rng.random() < 0.3:
        pos = rng.randint(0, 1)
        extras.insert(pos, 'other')
        pys.insert(pos, rng.choice(["'meta'", '123']))
    return {'name': name, 'extras': extras, 'py': '%s = typing.Annotated[TV, %s]' % (name, ', '.join(pys))}


def alias_use(rng, alias):
    inner = t_atom(rng.choice(CONCRETE)) if rng.random() < 0.6 else gen_plain_ty(rng)
    return {'k': 'annotated', 't': inner, 'extras': alias['extras'], 'py': '%s[%s]' % (alias['name'], inner['py']), 'py_feature': 'alias'}


def gen_priv(rng, name):
    fs, fpy = gen_shared_fieldspec(rng)
    return {'name': name, 'fs': fs, 'py': '%s = field(%s)' % (name, fpy)}


def priv_rhs(priv):
    return {'field': priv['fs'], 'init': True, 'py': priv['name']}


FT_TEXTS = ['bare'] * 10 + ['list'] * 2 + ['dict'] + ['ann'] * 3 + ['union'] * 3 + ['opt']


def gen_ft_target(rng, text):
    """the type a name is bound to (a plan the model understands)"""
    if text == 'bare':
        r = rng.random()
        if r < 0.45:
            return t_atom(rng.choice(list(ATOMS)))
        return gen_annotated(rng, t_atom(rng.choice(CONCRETE))) if r < 0.6 else gen_plain_ty(rng)
    if rng.random() < 0.65:
        return t_atom(rng.choice(list(ATOMS)))
    py, a, inst = rng.choice(GENERIC)
    if "'Nope'" in py:
        return t_atom('list')
    return {'k': 'generic', 'a': a, 'inst': inst, 'py': py}


def ft_type(name, text, target):
    """the annotation `text` over `name`, meaning `target` (None: the name is not bound, the string cannot be evaluated)"""
    py = {'bare': name, 'list': 'typing.List[%s]' % name, 'dict': 'typing.Dict[str, %s]' % name,
          'ann': 'typing.Annotated[%s, 123]' % name, 'union': 'typing.Union[%s, UR]' % name,
          'opt': 'typing.Optional[%s]' % name}[text]
    t = None
    if target is not None and ("'Nope'" in target['py'] or has_fwdarg(target)):
        target = None       # the evaluation of a string is recursive: an unresolved name nested in the bound type fails it too
    if target is not None:
        if text == 'bare':
            t = target
        elif text in ('list', 'dict'):
            t = {'k': 'generic', 'a': text, 'inst': False, 'py': py}
        elif text == 'ann':
            t = {'k': 'annotated', 't': target, 'extras': ['other'], 'py': py}
        elif text == 'union':
            t = {'k': 'union', 'args': [target, t_atom('userReq')], 'py': py}
        else:
            t = {'k': 'union', 'args': [target, {'k': 'none', 'py': 'None'}], 'py': py}
    return {'k': 'fwd', 't': t, 'py': repr(py), 'py_feature': 'ft'}


def gen_ft(rng, name, n):
    """binding schedule of one name over the n classes of a case: per class index the statements executed just before
    the class, and the type the name means while that class is created"""
    text = rng.choice(FT_TEXTS)
    same_text = rng.random() < 0.8
    bind_at = rng.choice([1] * 6 + [0] * 2 + [2, n])
    pre, types = [], []
    cur = None
    for k in range(n):
        stm = []
        if k == bind_at or (cur is not None and rng.random() < 0.3):
            cur = gen_ft_target(rng, text if same_text else 'any-wrapper')      # (re-)binding
            stm.append('%s = %s' % (name, cur['py']))
        elif cur is not None and rng.random() < 0.08:
            cur = None
            stm.append('del %s' % name)
        tx = text if same_text else rng.choice(FT_TEXTS)
        if tx == 'bare' or cur is None or cur['k'] in ('atom', 'generic'):
            types.append(ft_type(name, tx, cur))
        else:
            types.append(ft_type(name, 'bare', cur))      # a wrapper text over a target the wrapper plan does not cover
        pre.append(stm)
    return {'name': name, 'pre': pre, 'types': types}


def gen_env(rng, n):
    """the module-level objects of a case with n classes; None when the case has none"""
    env = {'aliases': [], 'privs': [], 'fts': [], 'props': None}
    if rng.random() < 0.2:
        for j in range(rng.randint(0, 2)):
            env['aliases'].append(gen_alias(rng, 'HID%d' % j))
        for j in range(rng.randint(0 if env['aliases'] else 1, 2)):
            env['privs'].append(gen_priv(rng, 'PRIV%d' % j))
    if n >= 2 and rng.random() < 0.3:
        for j in range(rng.randint(1, 2)):
            env['fts'].append(gen_ft(rng, 'FT%d' % j, n))
    if rng.random() < 0.3:
        env['props'] = [rng.choice(PROP_CLASSES) for _ in range(3)] + rng.sample(PROP_CLASSES[1:], 2)
    return env


def env_for_class(rng, env, k):
    """the view of the environment while class k is written: (env for the generators, statements before the class)"""
    pre = []
    if k == 0:
        pre += [a['py'] for a in env['aliases']] + [p['py'] for p in env['privs']]
    ft_types, forced = [], []
    for ft in env['fts']:
        pre += ft['pre'][k]
        ft_types.append(ft['types'][k])
        if rng.random() < 0.85:
            forced.append(ft['types'][k])
    return dict(env, ft_types=ft_types, forced=forced), pre


def has_fwdarg(t):
    if not isinstance(t, dict):
        return False
    if t.get('k') == 'fwdArg':
        return True
    return any(has_fwdarg(x) for x in t.get('args', [])) or has_fwdarg(t.get('t'))


def gen_rhs(rng, kinds=('none', 'value', 'fdefault', 'ffactory', 'fempty')):
    k = rng.choice(kinds)
    if k == 'none':
        return None
    if k == 'value':
        l = gen_lit(rng)
        return {'lit': l, 'py': lit_py(l)}
    fs, fpy = gen_fieldspec(rng, {'fdefault': 'default', 'ffactory': 'factory', 'fempty': 'empty'}[k])
    return {'field': fs, 'init': True, 'py': 'field(%s)' % fpy}


SETTER_DECOS = {'wraps': ['TRW'], 'wraps2': ['TRW', 'TRW'], 'closure': ['TRC'], 'mixed': ['TRC', 'TRW']}


def m_prop(rng, name, settable, props=None, srng=None):
    """a property member; `props` (when given) are the classes to write after `@`: property or subclasses of it; `srng`
    (the case's spelling generator) decides whether the setter function is written under decorators of the user"""
    m = {'k': 'prop', 'n': name, 'settable': settable}
    if props:
        m['py_deco'] = rng.choice(props)
    if srng is not None and settable and srng.random() < 0.3:
        m['py_sdeco'] = srng.choice(['wraps', 'wraps', 'wraps', 'wraps2', 'closure', 'mixed'])
    return m


# The spelling of the member names of a case comes from a generator of its own (`srng`): the statement is about the
# declaration styles, a style is defined by which of the two names carries the leading underscore — whatever else the
# public name looks like (PEP 8 spells a name that would clash with a keyword / builtin with a TRAILING underscore).
PEP8_NAMES = ['id_', 'type_', 'class_', 'from_', 'in_', 'len_', 'list_', 'p_q', 'x__y', 'a_b_', 'v1_', 'self_']


def spell_pub(srng, j, used):
    """the public name of property field number j"""
    base = 'p%d' % j
    if srng is None:
        return base
    r = srng.random()
    if r < 0.45:
        cand = base
    elif r < 0.75:
        cand = base + srng.choice(['_', '_', '__', '_x', '_x_', '_0_'])
    else:
        cand = srng.choice(PEP8_NAMES)
    if cand in used or cand.lstrip('_') in used:
        cand = base
    used.add(cand)
    return cand


def m_field(name, ty, rhs):
    if rhs is None:
        return {'k': 'ann', 'n': name, 't': ty}
    return {'k': 'annAssign', 'n': name, 't': ty, 'r': rhs}


# --------------------------------------------------------------------------- styled classes (oracle + correspondence)

STYLES = ['S1', 'S2', 'S3', 'S4', 'S5']
# S1 public property + underscored field        S2 public property + public annotated field (same name)
# S3 underscored property + public field        S4 underscored property + underscored annotated field (same name)
# S5 S2 plus the IDE helper `_x: T = field(init=False[, default=..])`  (docs/using_field_properties.rst)


def gen_styled_class(rng, cname, later_names, strip_defaults_of=None, env=None, srng=None):
    """a class in the documented styles: 1..3 property fields in varying order among ordinary members (up to 4 when the
    case has module-level objects for them to share, see gen_env)"""
    if strip_defaults_of is not None:
        return strip_defaults(strip_defaults_of, cname)
    env = env or {}
    forced = list(env.get('forced', ()))
    sharing = bool(env.get('aliases') or env.get('privs'))
    nprop = max(rng.randint(2, 4) if sharing else rng.randint(1, 3), len(forced))
    forced_at = dict(zip(rng.sample(range(nprop), len(forced)), forced))
    props = env.get('props')
    slots = []      # (field members, property members, item)
    used = set()
    for j in range(nprop):
        pub = spell_pub(srng, j, used)
        style = rng.choice(STYLES)
        ty = forced_at[j] if j in forced_at else gen_ty(rng, later_names, env)
        item = {'kind': 'propfield', 'pub': pub, 'style': style, 'ty': ty, 'explicit': None}
        if style in ('S1', 'S3'):
            if env.get('privs') and rng.random() < 0.5:
                rhs = priv_rhs(rng.choice(env['privs']))
                item['py_feature'] = 'priv'
            elif ty.get('py_feature'):
                rhs = gen_rhs(rng, ('none', 'none', 'fempty', 'value', 'fdefault', 'ffactory'))
            else:
                rhs = gen_rhs(rng)
            fname = '_' + pub if style == 'S1' else pub
            pname = pub if style == 'S1' else '_' + pub
            item['explicit'] = explicit_of(rhs)
            fm = [m_field(fname, ty, rhs)]
        elif style in ('S2', 'S4'):
            rhs = gen_rhs(rng, ('none', 'value', 'value', 'fdefault'))     # shadowed by the property: must not matter
            fname = pub if style == 'S2' else '_' + pub
            pname = fname
            fm = [m_field(fname, ty, rhs)]
        else:
            rhs = gen_rhs(rng, ('none', 'value'))
            pname = pub
            hty = t_atom(rng.choice(CONCRETE)) if rng.random() < 0.7 else gen_plain_ty(rng)
            if rng.random() < 0.3:
                l = gen_lit(rng, allow_shared=False)
                hr = {'field': {'default': l}, 'init': False, 'py': 'field(init=False, default=%s)' % lit_py(l)}
                item['explicit'] = {'value': l}
            else:
                hr = {'field': {}, 'init': False, 'py': 'field(init=False)'}
            helper = m_field('_' + pub, hty, hr)
            item['helper_ty'] = hty
            fm = [m_field(pub, ty, rhs), helper] if rng.random() < 0.7 else [helper, m_field(pub, ty, rhs)]
        item['prop'] = pname
        slots.append((fm, [m_prop(rng, pname, True, props, srng)], item))
    # ordinary members
    for j in range(rng.randint(0, 3)):
        r = rng.random()
        name = 'o%d' % j
        if r < 0.45:
            ty = t_atom(rng.choice(CONCRETE))
            kind = rng.choice(['required', 'value', 'fdefault', 'ffactory', 'noinit'])
            if kind == 'required':
                rhs = None
            elif kind == 'value':
                l = gen_lit(rng, allow_shared=False)
                rhs = {'lit': l, 'py': lit_py(l)}
            elif kind == 'noinit':
                l = gen_lit(rng, allow_shared=False)
                rhs = {'field': {'default': l}, 'init': False, 'py': 'field(init=False, default=%s)' % lit_py(l)}
            else:
                rhs = gen_rhs(rng, (kind,))
            slots.append(([m_field(name, ty, rhs)], [], {'kind': 'field', 'name': name, 'dkind': kind}))
        elif r < 0.6:
            fm = []
            with_field = rng.random() < 0.5
            if with_field:
                fm = [m_field('_' + name, t_atom('int'), {'lit': 0, 'py': '0'})]
            slots.append((fm, [m_prop(rng, name, False, props)], {'kind': 'ro', 'name': name, 'with_field': with_field}))
        elif r < 0.75:
            slots.append(([], [m_prop(rng, rng.choice([name, '_' + name]), True, props, srng)], {'kind': 'plainprop', 'name': name}))
            slots[-1][2]['name'] = slots[-1][1][0]['n']
        elif r < 0.9:
            l = gen_lit(rng)
            slots.append(([{'k': 'assign', 'n': name, 'r': {'lit': l, 'py': lit_py(l)}}], [], {'kind': 'attr', 'name': name}))
        else:
            slots.append(([{'k': 'method', 'n': name}], [], {'kind': 'method', 'name': name}))
    # order: required ordinary fields first (mostly), everything else shuffled; properties after their field or at the end
    rng.shuffle(slots)
    if rng.random() < 0.9:
        slots.sort(key=lambda s: 0 if s[2].get('dkind') == 'required' else 1)
    members, tail = [], []
    props_at_end = rng.random() < 0.5
    for fm, pm, item in slots:
        members += fm
        if props_at_end and item['kind'] == 'propfield':
            tail += pm
        elif item['kind'] in ('propfield',) and item['style'] in ('S1', 'S3') and rng.random() < 0.3:
            members[len(members) - len(fm):len(members) - len(fm)] = pm      # property declared before its field
        else:
            members += pm
    rng.shuffle(tail)
    members += tail
    return {'name': cname, 'styled': True, 'members': members, 'items': [s[2] for s in slots]}


def lit_tok(l):
    if l is None or isinstance(l, dict):
        return l
    if isinstance(l, bool):
        return {'b': l}
    if isinstance(l, int):
        return {'i': l}
    return {'s': l}


def explicit_of(rhs):
    if rhs is None:
        return None
    if 'lit' in rhs:
        return {'value': rhs['lit'], 'plain': True}
    fs = rhs['field']
    if 'default' in fs:
        return {'value': fs['default']}
    if 'factory' in fs:
        return {'factory': fs['factory']}
    return None


def strip_defaults(cls, cname):
    """the same class with every explicit default of a property field removed (the victim of a poisoned shared Field)"""
    c = json.loads(json.dumps(cls))
    c['name'] = cname
    pf = {}
    for it in c['items']:
        if it['kind'] == 'propfield':
            it['explicit'] = None
            for n in (it['pub'], '_' + it['pub']):
                pf[n] = it
    out = []
    for m in c['members']:
        if m['k'] == 'annAssign' and m['n'] in pf:
            if pf[m['n']]['style'] == 'S5' and m['n'].startswith('_'):
                m = dict(m, r={'field': {}, 'init': False, 'py': 'field(init=False)'})
            else:
                m = {'k': 'ann', 'n': m['n'], 't': m['t']}
        out.append(m)
    c['members'] = out
    return c


# --------------------------------------------------------------------------- wild classes (correspondence only)

def gen_wild_class(rng, cname, later_names, env=None, srng=None):
    """arbitrary member lists over a tiny name pool: shadowing in every order, colliding properties"""
    env = env or {}

    priv_used = []

    def gen_rhs_w(rng, kinds):
        # a shared Field at most once per wild class: dataclasses itself may get to see it here, and it names a Field
        # after the (one) attribute it is bound to
        if env.get('privs') and not priv_used and rng.random() < 0.3:
            priv_used.append(1)
            return priv_rhs(rng.choice(env['privs']))
        return gen_rhs(rng, kinds)

    pool = ['a', '_a', 'b', '_b']
    if srng is not None and srng.random() < 0.3:
        sa, sb = srng.choice(['a', 'a_', 'a__', 'a_x']), srng.choice(['b', 'b_', 'b_0_', 'id_'])
        pool = [sa, '_' + sa, sb, '_' + sb]
    members = []
    annotated = set()
    for _ in range(rng.randint(1, 7)):
        n = rng.choice(pool)
        r = rng.random()
        if r < 0.22:
            members.append({'k': 'ann', 'n': n, 't': gen_ty(rng, later_names, env)})
            annotated.add(n)
        elif r < 0.5:
            members.append({'k': 'annAssign', 'n': n, 't': gen_ty(rng, later_names, env), 'r': gen_rhs_w(rng, ('value', 'value', 'fdefault', 'ffactory', 'fempty'))})
            annotated.add(n)
        elif r < 0.6:
            l = gen_lit(rng)
            members.append({'k': 'assign', 'n': n, 'r': {'lit': l, 'py': lit_py(l)}})
        elif r < 0.9:
            members.append(m_prop(rng, n, rng.random() < 0.8, env.get('props'), srng))
        else:
            members.append({'k': 'method', 'n': n})
    return {'name': cname, 'styled': False, 'members': members, 'items': []}


# --------------------------------------------------------------------------- rendering

PROP_SRC = '''    @{d}
    def {n}(self):
        return self.__dict__.get('${n}', ABSENT)
'''
SETTER_SRC = '''    @{n}.setter
{decos}    def {n}(self, v):
        LOG.append(('{n}', v))
{guard}        self.__dict__['${n}'] = v
'''


def setter_src(m):
    decos = SETTER_DECOS.get(m.get('py_sdeco'), [])
    guard = ''
    if decos:
        # this function is the setter only together with its decorators
        guard = "        if len(VIA) != %d: BYPASS.append(('%s', len(VIA), %d))\n" % (len(decos), m['n'], len(decos))
    return SETTER_SRC.format(n=m['n'], decos=''.join('    @%s\n' % d for d in decos), guard=guard)


def render_class(cls, decorator=True, pre=True):
    lines = list(cls.get('pre', ())) if pre else []      # module-level statements executed just before the class
    if decorator:
        lines.append('@dataclass')
    lines.append('class %s(metaclass=property_wizard):' % cls['name'])
    body = []
    for m in cls['members']:
        k, n = m['k'], m['n']
        if k == 'ann':
            body.append('    %s: %s' % (n, m['t']['py']))
        elif k == 'annAssign':
            body.append('    %s: %s = %s' % (n, m['t']['py'], m['r']['py']))
        elif k == 'assign':
            body.append('    %s = %s' % (n, m['r']['py']))
        elif k == 'prop':
            body.append(PROP_SRC.format(n=n, d=m.get('py_deco', 'property')).rstrip('\n'))
            if m['settable']:
                body.append(setter_src(m).rstrip('\n'))
            body.append('    REG.setdefault(%r, []).append(%s)' % (cls['name'] + '.' + n, n))
        elif k == 'method':
            body.append('    def %s(self):\n        return 1' % n)
            body.append('    REG.setdefault(%r, []).append(%s)' % (cls['name'] + '.' + n, n))
    if not body:
        body.append('    pass')
    return '\n'.join(lines + body) + '\n'


def render_case(case):
    return PRELUDE + '\n' + '\n'.join(render_class(c) for c in case['classes'])


# --------------------------------------------------------------------------- observation (runs in the forked child)

def tok(v, g):
    if v is None:
        return None
    if isinstance(v, bool):
        return {'b': v}
    if type(v) is int:
        return {'i': v}
    if type(v) is str:
        return {'s': v}
    if isinstance(v, property):
        return 'prop'
    for k, s in enumerate(g['SH']):
        if v is s:
            return {'sh': k}
    if type(v) is list and len(v) == 2 and v[0] == 'lam':
        return {'lam': v[1]}
    if type(v) is list and len(v) == 2 and v[0] == 'sh':
        return {'sh-copy': v[1]}
    for a, cls in atom_classes(g):
        if type(v) is cls:
            if a == 'userObj':
                return {'z': a}
            try:
                if v == cls():
                    return {'z': a}
            except TypeError:
                pass
            return 'nonzero:' + a
    return 'other'


def atom_classes(g):
    ac = g.get('__atomcls__')
    if ac is None:
        ac = g['__atomcls__'] = [(a, eval(py, g)) for a, py in ATOMS.items()]
    return ac


def identity_bearing(v, g):
    return any(type(v) is cls for a, cls in atom_classes(g) if a in MUTABLE_ATOMS)


def descr(v, g, reg):
    import dataclasses
    if v is ABSENT_:
        return 'absent'
    if isinstance(v, dataclasses.Field):
        return {'field': {'default': 'MISSING' if v.default is dataclasses.MISSING else tok(v.default, g),
                          'factory': 'MISSING' if v.default_factory is dataclasses.MISSING else factory_tok(v.default_factory, g)},
                'init': v.init}
    if isinstance(v, property):
        # wrapped: the setter is a functools-wrapper that the class body did not put there itself (a setter the user wrote
        # under a functools.wraps-based decorator carries __wrapped__ from the start)
        own = any(v.fset is p.fset for ps in reg.values() for p in ps if isinstance(p, property))
        return {'prop': v.fget.__name__, 'settable': v.fset is not None,
                'wrapped': v.fset is not None and hasattr(v.fset, '__wrapped__') and not own}
    if isinstance(v, types.FunctionType):
        return {'method': v.__name__}
    return {'lit': tok(v, g)}


def factory_tok(f, g):
    for k, l in enumerate(g['LAM']):
        if f is l:
            return {'lam': k}
    for a, py in ATOMS.items():
        if f is eval(py, g):
            return a
    return 'other'


ABSENT_ = object()


def derive_runs(params, assign_names):
    """deterministic argument subsets from the observed signature: every subset of the optional parameters (all of them
    up to 4 optional parameters, else empty / full / singletons / co-singletons), required ones always supplied; plus a
    missing-required run, an unexpected-keyword run and a run passing a property object"""
    names = [n for n, _ in params]
    val = {n: 1000 + i for i, n in enumerate(names)}
    req = [n for n, k in params if k == 'required']
    opt = [n for n, k in params if k != 'required']
    if len(opt) <= 4:
        subsets = [set(s) for r in range(len(opt) + 1) for s in itertools.combinations(opt, r)]
    else:
        subsets = [set(), set(opt)] + [{o} for o in opt] + [set(opt) - {o} for o in opt]
    runs = []
    asg = [[n, 2000 + i] for i, n in enumerate(assign_names)]
    for i, s in enumerate(subsets):
        runs.append({'args': [[n, val[n]] for n in names if n in req or n in s], 'assign': asg if i in (0, len(subsets) - 1) else []})
    if req:
        runs.append({'args': [[n, val[n]] for n in names if n in req[1:]], 'assign': []})
    runs.append({'args': [[n, val[n]] for n in req] + [['zz_unexpected', 1]], 'assign': []})
    if opt:
        runs.append({'args': [[n, val[n]] for n in req] + [[opt[0], 'prop']], 'assign': [[opt[0], 'prop']]})
    return runs


def err_name(e):
    n = type(e).__name__
    return n if n in ('TypeError', 'AttributeError', 'ValueError') else 'other:' + n


def observe_case(case):
    """execute the case's classes in sequence in a fresh module; returns one observation per class"""
    import dataclasses
    import inspect
    modname = 'dwv_c16_case'
    mod = types.ModuleType(modname)
    sys.modules[modname] = mod
    g = mod.__dict__
    exec(compile(PRELUDE, '<c16 prelude>', 'exec', dont_inherit=True), g)
    out = []
    for cls in case['classes']:
        out.append(observe_class(cls, g))
    return out


def observe_class(cls, g):
    import dataclasses
    import inspect
    name = cls['name']
    o = {}
    if cls.get('pre'):
        # module-level statements between the classes (shared objects, names bound / re-bound / deleted)
        exec(compile('\n'.join(cls['pre']) + '\n', '<c16 before %s>' % name, 'exec', dont_inherit=True), g)
    names_before = set(g)
    src = render_class(cls, decorator=False, pre=False)
    try:
        exec(compile(src, '<c16 %s>' % name, 'exec', dont_inherit=True), g)
    except Exception as e:
        o['cls'] = 'wizard:' + err_name(e)
        o['detail'] = repr(e)[:200]
        o['fields_modified'] = fields_modified(g)
        return o
    if any(m.get('t', {}).get('py_feature') == 'perm' for m in cls['members']):
        o['perm_orders'] = perm_orders(cls, g)
    try:
        return observe_created(cls, g, o, names_before)
    finally:
        o['fields_modified'] = fields_modified(g)


def perm_orders(cls, g):
    """Python's reading of the annotation texts of the equal-comparing-annotations stream.  typing caches subscriptions by
    the equality of their arguments, so a text that NESTS such an annotation (Optional[Union[str, int]], Annotated[Union[str,
    int], 'm'], Union[str, int | float], Literal[Literal['w', 'r'], 'x']) may evaluate to the object an earlier, differently
    ordered text produced.  That is the language's business, not the library's: per member index the order (indices into
    the plan's args / vs) in which the evaluated object lists the planned members, or None when the object is not what the
    plan describes."""
    import typing
    out = []
    for k, m in enumerate(cls['members']):
        t = m.get('t')
        if not t or t.get('py_feature') != 'perm':
            continue
        try:
            tp = eval(t['py'], g)
            while t['k'] in ('annotated', 'fwd'):
                if t['k'] == 'fwd':
                    tp = eval(tp, g) if isinstance(tp, str) else tp
                else:
                    tp = tp.__origin__
                t = t['t']
            args = typing.get_args(tp)
            if t['k'] == 'literal':
                plan = [lit_key(v) for v in t['vs']]
                order = [plan.index(lit_key(a)) for a in args]
            else:
                plan = [type(None) if a['k'] == 'none' else eval(a['py'], g) for a in t['args']]
                order = [next(j for j, p in enumerate(plan) if p is a or (not isinstance(p, type) and p == a)) for a in args]
            out.append([k, order if sorted(order) == list(range(len(plan))) else None])
        except Exception:
            out.append([k, None])
    return out


def apply_perm_orders(cls, orders):
    """the class plan with the members of its equal-comparing annotations in the order Python gave them (see perm_orders);
    None when some annotation object is not what the plan describes"""
    c = json.loads(json.dumps(cls))
    for k, order in orders:
        if order is None:
            return None
        t = c['members'][k]['t']
        while t['k'] in ('annotated', 'fwd'):
            t = t['t']
        key = 'vs' if t['k'] == 'literal' else 'args'
        t[key] = [t[key][j] for j in order]
    return c


def fields_modified(g):
    """user-written Field objects whose declared options differ from what they were created with (reported once)"""
    out = []
    for f, decl, how, said in g['FIELDS']:
        for a, v in decl.items():
            now = getattr(f, a, ABSENT_)
            if now is not v and a not in said:
                said.add(a)
                out.append([how, a, repr(v)[:60], repr(now)[:60]])
    return out


def declared_default(f, g):
    """(default, default_factory) a Field was declared with — from the registry of the case module, so that whatever
    happened to the object since does not reach the oracle"""
    for rec in g['FIELDS']:
        if rec[0] is f:
            return rec[1]['default'], rec[1]['default_factory']
    return f.default, f.default_factory


def observe_created(cls, g, o, names_before):
    import dataclasses
    import inspect
    name = cls['name']
    K = g[name]
    reg = {k[len(name) + 1:]: v for k, v in g['REG'].items() if k.startswith(name + '.')}
    snap = dict(vars(K))
    o['anns'] = list(K.__dict__.get('__annotations__', {}))
    probe = probe_names(cls)
    o['attrs'] = [[n, descr(snap.get(n, ABSENT_), g, reg)] for n in probe]
    # untouched: is the object bound to n the very object the class body bound last
    o['same_object'] = [[n, (n in snap and bool(reg.get(n)) and snap[n] is reg[n][-1])] for n in probe if n in reg]
    o['getter_kept'] = [[n, (isinstance(snap.get(n), property) and any(snap[n].fget is p.fget for ps in reg.values() for p in ps if isinstance(p, property)))]
                        for n in probe if isinstance(snap.get(n), property)]
    # reference defaults (oracle side; stdlib introspection only), evaluated against the names defined so far
    o['ref'] = {}
    for it in cls.get('items', []):
        if it['kind'] == 'propfield':
            try:
                o['ref'][it['pub']] = reference_default(it, g, names_before)
            except Exception as e:
                o['ref'][it['pub']] = {'error': repr(e)[:200]}
    try:
        K = dataclasses.dataclass(K)
    except Exception as e:
        o['cls'] = err_name(e)
        o['detail'] = repr(e)[:200]
        return o
    o['cls'] = 'ok'
    o['fields'] = [f.name for f in dataclasses.fields(K)]
    params = []
    for pn, p in list(inspect.signature(K.__init__).parameters.items())[1:]:
        if p.default is inspect.Parameter.empty:
            kind = 'required'
        elif isinstance(p.default, property):
            kind = 'property'
        elif p.default is dataclasses._HAS_DEFAULT_FACTORY:
            kind = 'factory'
        else:
            kind = 'value'
        params.append([pn, kind])
    o['params'] = params
    # declared property name -> the slot it lives under now
    slot_of = {}
    for n, v in vars(K).items():
        if isinstance(v, property):
            slot_of.setdefault(v.fget.__name__, []).append(n)
    prop_slots = sorted(n for n, v in vars(K).items() if isinstance(v, property))
    assign_names = assign_targets(cls)
    o['runs_spec'] = derive_runs(params, assign_names)
    o['runs'] = []
    LOG = g['LOG']

    def slot(d):
        s = slot_of.get(d, [])
        return s[0] if len(s) == 1 else 'ambiguous:' + d

    def value_of(a):
        return property() if a == 'prop' else a

    def make(args):
        del LOG[:]
        inst = K(**{n: value_of(v) for n, v in args})
        return inst, list(LOG)

    def store_of(inst):
        st = []
        for n in prop_slots:
            try:
                v = getattr(inst, n)
            except Exception as e:
                st.append([n, 'getter-raised:' + type(e).__name__])
                continue
            if v is not g['ABSENT']:
                st.append([n, tok(v, g)])
        for n, v in inst.__dict__.items():
            if not n.startswith('$'):
                st.append([n, tok(v, g)])
        return sorted(st, key=lambda e: e[0])

    for run in o['runs_spec']:
        r = {}
        try:
            i1, log1 = make(run['args'])
        except Exception as e:
            o['runs'].append({'err': err_name(e)})
            continue
        try:
            i2, log2 = make(run['args'])
        except Exception as e:
            o['runs'].append({'err2': err_name(e)})
            continue
        r['first'] = {'log': [[slot(d), tok(v, g)] for d, v in log1], 'store': store_of(i1)}
        r['second'] = {'log': [[slot(d), tok(v, g)] for d, v in log2], 'store': store_of(i2)}
        r['same'] = [((a[1] is b[1]) if identity_bearing(a[1], g) and identity_bearing(b[1], g) else None) for a, b in zip(log1, log2)]
        asg = []
        for n, v in run['assign']:
            del LOG[:]
            try:
                setattr(i1, n, value_of(v))
            except Exception as e:
                asg.append(err_name(e))
                continue
            try:
                got = getattr(i1, n)
                got = 'absent' if got is g['ABSENT'] else tok(got, g)
            except Exception as e:
                got = 'getter-raised:' + type(e).__name__
            asg.append({'log': [[slot(d), tok(x, g)] for d, x in LOG], 'get': got})
        r['assign'] = asg
        o['runs'].append(r)
    # setter functions that were reached around the decorators the user wrote them under (constructor or assignment)
    o['bypass'] = sorted(set(g['BYPASS']))
    del g['BYPASS'][:]
    return o


def probe_names(cls):
    names = []
    for m in cls['members']:
        for n in (m['n'], m['n'].lstrip('_'), '_' + m['n'].lstrip('_')):
            if n and n not in names:
                names.append(n)
    return names


def assign_targets(cls):
    return probe_names(cls)[:6]


# --------------------------------------------------------------------------- the oracle's reading of "declared default"

def reference_default(item, g, visible):
    """The statement's default for a property field, from the declaration plan; annotation objects are inspected with
    the stdlib only.  Returns {'allowed': [tokens], 'fresh': bool (a new object per instance is required),
    'why': text}."""
    import dataclasses
    ex = item.get('explicit')
    style = item['style']
    if ex is not None and style in ('S1', 'S3', 'S5'):
        if 'factory' in ex:
            f = eval(factory_py(ex['factory']), g)
            v = f()
            return {'allowed': [tok(v, g)], 'fresh': True, 'why': 'declared default_factory', 'explicit': 'factory'}
        return {'allowed': [tok(eval(lit_py(ex['value']), g), g)], 'fresh': False, 'why': 'declared default',
                'explicit': 'plain' if ex.get('plain') else 'field'}
    genv = {k: v for k, v in g.items() if k in visible}
    r = implied_default(eval_ann(item['ty']['py'], genv), g, genv)
    r['explicit'] = None
    return r


def eval_ann(py, genv):
    return eval(py, dict(genv))


def implied_default(tp, g, genv):
    """carried by Annotated, or implied by the type (zero value / None)"""
    import dataclasses
    import typing
    NONE = {'allowed': [None], 'fresh': False, 'why': 'None'}
    if isinstance(tp, (str, typing.ForwardRef)):
        s = tp if isinstance(tp, str) else tp.__forward_arg__
        try:
            tp = eval(s, dict(genv))
            if not fully_resolvable(tp, genv):
                raise NameError(s)
        except NameError:
            return dict(NONE, why='unresolvable forward reference -> None')
    if typing.get_origin(tp) is typing.Annotated:
        for e in tp.__metadata__:
            if isinstance(e, dataclasses.Field):
                e_default, e_factory = declared_default(e, g)
                if e_default is not dataclasses.MISSING:
                    return {'allowed': [tok(e_default, g)], 'fresh': False, 'why': 'Annotated field(default=)'}
                if e_factory is not dataclasses.MISSING:
                    return {'allowed': [tok(e_factory(), g)], 'fresh': True, 'why': 'Annotated field(default_factory=)'}
                break
        return implied_default(tp.__origin__, g, genv)
    origin = typing.get_origin(tp)
    args = typing.get_args(tp)
    if origin is typing.Literal:
        return {'allowed': [tok(args[0], g)], 'fresh': False, 'why': 'first Literal value'}
    if origin is typing.Union or origin is types.UnionType:
        if type(None) in args:
            return dict(NONE, why='Optional -> None')
        first = args[0]
        z = zero_of(first, g)
        if isinstance(first, type):
            return z
        # a non-class first member (generic alias, Literal, ...): its zero value or None are both readings of the statement
        z2 = zero_of(typing.get_origin(first), g) if typing.get_origin(first) is not None else NONE
        al = [None]
        for cand in (z, z2):
            for t in cand['allowed']:
                if t not in al:
                    al.append(t)
        return {'allowed': al, 'fresh': False, 'why': 'Union: zero value of the first member, or None'}
    if origin is not None:
        z = zero_of(origin, g)
        if not args and not isinstance(tp, type) and None not in z['allowed']:
            # an un-subscripted typing alias (typing.List): "the type's zero value, or None" — the statement does not say
            # which; both are accepted (the library answers None for List/Dict/Set/FrozenSet/Tuple, the zero value for
            # DefaultDict/OrderedDict/Counter/Deque), a list/dict/set must still be fresh per instance
            z = dict(z, allowed=z['allowed'] + [None], why=z['why'] + ' (bare typing alias: or None)')
        return z
    return zero_of(tp, g)


def fully_resolvable(tp, genv):
    """a string annotation is evaluated as a whole: names nested in it must be defined as well"""
    import typing
    if isinstance(tp, (str, typing.ForwardRef)):
        s = tp if isinstance(tp, str) else tp.__forward_arg__
        try:
            return fully_resolvable(eval(s, dict(genv)), genv)
        except NameError:
            return False
    if typing.get_origin(tp) is typing.Literal:
        return True
    if typing.get_origin(tp) is typing.Annotated:
        return fully_resolvable(tp.__origin__, genv)
    return all(fully_resolvable(a, genv) for a in typing.get_args(tp) if not isinstance(a, (int, bytes, bool, type(None), type(...))) or isinstance(a, str))


def zero_of(cls, g):
    try:
        v = cls()
    except TypeError:
        return {'allowed': [None], 'fresh': False, 'why': 'not constructible without arguments -> None'}
    return {'allowed': [tok(v, g)], 'fresh': isinstance(v, (list, dict, set)), 'why': 'zero value of %s' % getattr(cls, '__name__', cls)}


# --------------------------------------------------------------------------- fork plumbing

def in_child(fn, *a):
    r, w = os.pipe()
    pid = os.fork()
    if pid == 0:
        os.close(r)
        try:
            try:
                res = {'ok': fn(*a)}
            except BaseException:
                res = {'crash': traceback.format_exc()[-1500:]}
            with os.fdopen(w, 'w') as f:
                json.dump(res, f, default=repr)
        finally:
            os._exit(0)
    os.close(w)
    with os.fdopen(r) as f:
        data = f.read()
    os.waitpid(pid, 0)
    try:
        return json.loads(data)
    except ValueError:
        return {'crash': 'no output from child: %r' % data[:200]}


def probe_quirks():
    """run the witness of each known deviation on the implementation (in a child)"""
    case = {'classes': [{'name': 'Q0', 'styled': True, 'items': [], 'members': [
        {'k': 'annAssign', 'n': 'wheels', 't': t_atom('list'), 'r': {'lit': None, 'py': 'None'}},
        {'k': 'prop', 'n': '_wheels', 'settable': True}]}]}
    res = in_child(observe_case, case)
    try:
        run0 = res['ok'][0]['runs'][0]
        return {'underPlainKeepsFactory': run0['first']['log'] != [['wheels', None]]}
    except Exception:
        return {'underPlainKeepsFactory': False, 'probe_error': str(res)[:300]}


# --------------------------------------------------------------------------- model side

def strip_py(o):
    if isinstance(o, dict):
        return {k: strip_py(v) for k, v in o.items() if not k.startswith('py')}
    if isinstance(o, list):
        return [strip_py(x) for x in o]
    return o


def model_request(cls, obs, quirks):
    return {'op': 'c16', 'quirks': quirks, 'members': strip_py(cls['members']), 'probe': probe_names(cls),
            'runs': obs.get('runs_spec', [])}


def impl_canon(obs):
    if obs['cls'] != 'ok':
        c = {'cls': obs['cls']}
        if 'anns' in obs:
            c['anns'] = obs['anns']
            c['attrs'] = obs['attrs']
        return c
    return {'cls': 'ok', 'anns': obs['anns'], 'attrs': obs['attrs'], 'fields': obs['fields'], 'params': obs['params'],
            'runs': obs['runs']}


def model_canon(r, obs):
    c = {'cls': r['cls'], 'anns': r['anns'], 'attrs': r['attrs']}
    if r['cls'] != 'ok':
        return c
    c['fields'] = r['fields']
    c['params'] = r['params']
    runs = []
    for x in r['runs']:
        if 'err' in x or 'err2' in x:
            runs.append(x)
            continue
        for k in ('first', 'second'):
            x[k]['store'] = sorted(x[k]['store'], key=lambda e: e[0])
        runs.append(x)
    c['runs'] = runs
    return c


def unz(t):
    """canonical token: the model says {"i":0} for int(), the observation too"""
    return t


# --------------------------------------------------------------------------- the oracle proper

def oracle(ctx, case, ci, cls, obs, quirks):
    """the statement, checked on the implementation's observations for one styled class"""
    kind = 'styled'
    items = cls['items']
    pf = [it for it in items if it['kind'] == 'propfield']
    src = render_class(cls)

    said = set()

    def fail(what, key=None, **kw):
        if what in said:            # the same finding on another argument subset / the second instance
            ctx.count('oracle:repeat')
            return
        said.add(what)
        if case.get('pools'):
            # the classes of such a case are a history: show all of them (each is still judged by its own text)
            kw.setdefault('case_src', '\n'.join(render_class(c) for c in case['classes']))
        ctx.fail(kind, case, '%s: %s' % (cls['name'], what), key=key, detail=dict(src=src, **kw))

    # expected annotation -> constructor name mapping, in annotation order
    ann_order = []
    for m in cls['members']:
        if m['k'] in ('ann', 'annAssign') and m['n'] not in ann_order:
            ann_order.append(m['n'])
    rename = {}
    for it in pf:
        rename['_' + it['pub']] = it['pub']
    exp_fields = []
    for n in ann_order:
        n2 = rename.get(n, n)
        if n2 not in exp_fields:
            exp_fields.append(n2)
    ordinary = {it['name']: it for it in items if it['kind'] == 'field'}
    # class creation: only the dataclass rule "required after default" may reject a styled class
    init_fields = [n for n in exp_fields if not (n in ordinary and ordinary[n]['dkind'] == 'noinit')]
    has_default = lambda n: not (n in ordinary and ordinary[n]['dkind'] == 'required')
    bad_order = any(has_default(a) and not has_default(b) for i, a in enumerate(init_fields) for b in init_fields[i + 1:])
    if obs['cls'] != 'ok':
        if not (bad_order and obs['cls'] == 'TypeError'):
            fail('class creation raised %s (%s)' % (obs['cls'], obs.get('detail')))
        return
    if bad_order:
        fail('a required field after a defaulted one was accepted')
        return
    # 1. constructor parameters: public names, field order
    got_params = [n for n, _ in obs['params']]
    if got_params != init_fields:
        fail('constructor parameters %r, expected %r (public names in field order)' % (got_params, init_fields))
        return
    if obs['fields'] != exp_fields:
        fail('dataclass fields %r, expected %r' % (obs['fields'], exp_fields))
    kinds = dict(map(tuple, obs['params']))
    for n, it in ordinary.items():
        if it['dkind'] == 'noinit':
            continue
        want = {'required': 'required', 'value': 'value', 'fdefault': 'value', 'ffactory': 'factory'}[it['dkind']]
        if kinds.get(n) != want:
            fail('ordinary field %s has parameter kind %r, expected %r' % (n, kinds.get(n), want))
    # 4. untouched members
    attrs = dict(map(tuple, [(a, json.dumps(b, sort_keys=True)) for a, b in obs['attrs']]))
    same = dict(map(tuple, obs['same_object']))
    for it in items:
        if it['kind'] in ('ro', 'plainprop', 'method'):
            if not same.get(it['name']):
                fail('%s %s is no longer the object the class body defined' % (it['kind'], it['name']))
            if it['name'] in got_params:
                fail('%s %s became a constructor parameter' % (it['kind'], it['name']))
        if it['kind'] == 'ro' and it['with_field'] and '_' + it['name'] not in got_params:
            fail('field _%s next to read-only property %s was renamed or dropped' % (it['name'], it['name']))
    for m in cls['members']:
        if m['k'] == 'assign' and any(it['kind'] == 'attr' and it['name'] == m['n'] for it in items):
            want = json.dumps({'lit': lit_tok(m['r']['lit'])}, sort_keys=True)
            if attrs.get(m['n']) != want:
                fail('plain attribute %s is now %s, the class body bound it to %s' % (m['n'], attrs.get(m['n']), want))
    kept = dict(map(tuple, obs['getter_kept']))
    for it in pf:
        if not kept.get(it['pub']):
            fail('property field %s does not keep the declared getter under its public name' % it['pub'])
    # 2+3. routing
    pubs = [it['pub'] for it in pf]
    for run_spec, run in zip(obs['runs_spec'], obs['runs']):
        args = dict(map(tuple, run_spec['args']))
        legal = set(args) <= set(got_params) and all(n in args for n in got_params if kinds[n] == 'required')
        if 'err' in run or 'err2' in run:
            if legal:
                fail('constructing with %r raised %s' % (args, run.get('err') or run.get('err2')))
            continue
        if not legal:
            fail('constructing with %r was accepted' % (args,))
            continue
        for which in ('first', 'second'):
            log = run[which]['log']
            store = dict(map(tuple, [(a, json.dumps(b, sort_keys=True)) for a, b in run[which]['store']]))
            by = {}
            for n, v in log:
                by.setdefault(n, []).append(v)
            if sorted(by) != sorted(pubs):
                fail('constructor called the setters of %r, expected exactly the property fields %r' % (sorted(by), sorted(pubs)))
                continue
            for it in pf:
                p = it['pub']
                vs = by[p]
                if len(vs) != 1:
                    fail('setter of %s called %d times by the constructor' % (p, len(vs)))
                    continue
                got = vs[0]
                if store.get(p) != json.dumps(got, sort_keys=True):
                    fail('getter of %s returns %s after the setter received %r' % (p, store.get(p), got))
                if p in args and args[p] != 'prop':
                    if got != {'i': args[p]}:
                        fail('argument %s=%r: the setter received %r' % (p, args[p], got))
                    continue
                ref = obs['ref'][p]
                if 'error' in ref:
                    fail('reference default not computable: %s' % ref['error'])
                    continue
                if got not in ref['allowed']:
                    key = None
                    if (it['style'] == 'S3' and ref.get('explicit') == 'plain' and quirks.get('underPlainKeepsFactory')):
                        key = KEY_UNDER_PLAIN
                    fail('%s omitted (style %s, annotation %s): the setter received %r, the declared default is %r (%s)'
                         % (p, it['style'], it['ty']['py'], got, ref['allowed'], ref['why']), key=key)
        # freshness across the two instances
        log1, log2 = run['first']['log'], run['second']['log']
        for (n, v), s in zip(log1, run['same']):
            it = next((i for i in pf if i['pub'] == n), None)
            if it is None or (n in args and args[n] != 'prop'):
                continue
            ref = obs['ref'][n]
            if 'error' in ref:
                continue
            lds = (isinstance(v, dict) and (v.get('z') in LDS_ATOMS or 'lam' in v))
            if (ref['fresh'] or (lds and ref.get('explicit') is None)) and s is True:
                key = None
                fail('%s omitted (style %s, annotation %s): two instances received the SAME object %r (%s must be fresh per instance)'
                     % (n, it['style'], it['ty']['py'], v, ref['why']), key=key)
            if s is False and not ref['fresh'] and v in ref['allowed'] and ref.get('explicit') in ('plain', 'field'):
                fail('%s omitted: the declared default object %r was copied' % (n, v))
        # later assignment goes through the setter
        for (n, v), a in zip(run_spec['assign'], run['assign']):
            if n in pubs and v != 'prop':
                if not (isinstance(a, dict) and a['log'] == [[n, {'i': v}]] and a['get'] == {'i': v}):
                    fail('assignment %s = %r afterwards: observed %r, expected one setter call with that value' % (n, v, a))
            ro = [it['name'] for it in items if it['kind'] == 'ro']
            if n in ro and a != 'AttributeError':
                fail('assignment to read-only property %s: %r' % (n, a))
            pl = [it['name'] for it in items if it['kind'] == 'plainprop']
            if n in pl and v != 'prop' and not (isinstance(a, dict) and a['log'] == [[n, {'i': v}]]):
                fail('assignment to ordinary property %s: %r' % (n, a))


# --------------------------------------------------------------------------- law check: the model's T() table

def law_requests():
    reqs, meta = [], []
    for a, py in ATOMS.items():
        reqs.append({'op': 'c16', 'fn': 'zero', 'ty': {'k': 'atom', 'a': a}})
        meta.append(py)
    for py, a, inst in BARE:
        reqs.append({'op': 'c16', 'fn': 'zero', 'ty': {'k': 'bare', 'a': a, 'inst': inst}})
        meta.append(py)
    for py, a, inst in GENERIC:
        reqs.append({'op': 'c16', 'fn': 'zero', 'ty': {'k': 'generic', 'a': a, 'inst': inst}})
        meta.append(py)
    for py, t in (('typing.Any', {'k': 'any'}), ('None', {'k': 'none'}), ('typing.Union[int, str]', {'k': 'union', 'args': []}),
                  ('typing.Literal[1]', {'k': 'literal', 'vs': [1]}), ("typing.ForwardRef('Nope')", {'k': 'fwdArg'}),
                  ('typing.Annotated[int, 1]', {'k': 'annotated', 't': {'k': 'atom', 'a': 'int'}, 'extras': ['other']}),
                  ('typing.Annotated[typing.List[int], 1]', {'k': 'annotated', 't': {'k': 'generic', 'a': 'list', 'inst': False}, 'extras': ['other']}),
                  ('typing.Annotated[list[int], 1]', {'k': 'annotated', 't': {'k': 'generic', 'a': 'list', 'inst': True}, 'extras': ['other']})):
        reqs.append({'op': 'c16', 'fn': 'zero', 'ty': t})
        meta.append(py)
    return reqs, meta


def law_impl(pys):
    mod = types.ModuleType('dwv_c16_law')
    g = mod.__dict__
    exec(compile(PRELUDE, '<c16 prelude>', 'exec', dont_inherit=True), g)
    out = []
    for py in pys:
        t = eval(py, g)
        try:
            v = t()
        except TypeError:
            out.append('TypeError')
            continue
        out.append({'zero': tok(v, g), 'lds': isinstance(v, (list, dict, set))})
    return out


# --------------------------------------------------------------------------- run

def gen_case(rng, i, seed=0):
    # the spelling of the case (names of the members, decorators on the setter functions) has a generator of its own
    srng = random.Random('C16:%s:%d:spelling' % (seed, i))
    r = rng.random()
    n = rng.choice([1, 1, 2, 3])
    twins = 0.62 <= r < 0.72
    if twins:
        n = rng.choice([2, 3])
    names = ['C%d' % k for k in range(n)]
    env = gen_env(rng, n)
    if twins:
        env['fts'] = []          # the twin repeats the annotations of C0 verbatim, with what they meant for C0
    classes = []

    def add(k, make):
        envk, pre = env_for_class(rng, env, k)
        c = make(envk)
        c.pop('pre', None)
        if pre:
            c['pre'] = pre
        classes.append(c)

    if r < 0.62:
        for k, nm in enumerate(names):
            add(k, lambda e: gen_styled_class(rng, nm, names[k:], env=e, srng=srng))
        kind = 'styled'
    elif twins:
        # twins: a class with explicit defaults, then the same class with the defaults removed
        add(0, lambda e: gen_styled_class(rng, 'C0', ['C1', 'C2'], env=e, srng=srng))     # names unresolvable in C0 and in its twin C1
        add(1, lambda e: gen_styled_class(rng, 'C1', [], strip_defaults_of=classes[0]))
        if n == 3:
            add(2, lambda e: gen_styled_class(rng, 'C2', ['C2'], env=e, srng=srng))
        kind = 'styled'
    else:
        for k, nm in enumerate(names):
            add(k, lambda e: gen_wild_class(rng, nm, names[k:], env=e, srng=srng) if rng.random() < 0.8 else gen_styled_class(rng, nm, names[k:], env=e, srng=srng))
        kind = 'wild'
    return {'kind': kind, 'classes': classes}


# --------------------------------------------------------------------------- histories of equal-comparing annotations
#
# Python's typing objects compare equal (with equal hashes) across member order and spelling: Union[int, str] ==
# Union[str, int] == (str | int), Literal['r', 'w'] == Literal['w', 'r'], Annotated[Union[int, str], 'm'] ==
# Annotated[Union[str, int], 'm'] — and the argument tuples of Literal[0, 'r'] and Literal[False, 'r'] compare equal although
# the Literals do not.  The default IMPLIED by an annotation depends on exactly what those equalities forget (the first
# member / first literal, its type).  A case of this stream draws one or two member POOLS and declares 2..4 classes in one
# process whose property fields are annotated with independently drawn orders x spellings of those pools (instances are
# constructed between the declarations); every class is judged, as always, against the implied default of its OWN
# annotation text (oracle: stdlib introspection of the evaluated text; model: the flattened argument list of the plan).

PERM_FIRST = 100000          # case indices of this stream (the main stream uses 0 .. ncases)
LIT_POOL = [0, 1, 2, -3, 'r', 'w', 'x', '', True, False, None]
LIT_COUSIN = {0: False, 1: True}
SAFE_GENERIC = [g for g in GENERIC if "'Nope'" not in g[0]]


def lit_key(v):
    return (type(v).__name__, v)


def gen_pool(rng):
    """the members that the annotations of a case share: literal values or Union member types"""
    if rng.random() < 0.4:
        vs = []
        for v in rng.sample(LIT_POOL, len(LIT_POOL)):
            if all(lit_key(v) != lit_key(w) for w in vs):
                vs.append(v)
            if len(vs) == rng.choice([2, 2, 3, 3, 4]):
                break
        return {'kind': 'literal', 'members': vs}
    members, seen, lit = [], set(), False
    n = rng.choice([2, 2, 2, 3, 3, 4])
    for _ in range(20):
        r = rng.random()
        if r < 0.55:
            m = t_atom(rng.choice(CONCRETE + ['bytes', 'frozenset']))
        elif r < 0.8:
            m = t_atom(rng.choice(list(ATOMS)))
        elif r < 0.93 or lit:
            py, a, inst = rng.choice(SAFE_GENERIC)
            m = {'k': 'generic', 'a': a, 'inst': inst, 'py': py}
        else:
            m = gen_literal(rng)         # at most one Literal member (two equal ones would be merged by typing)
        if m['py'] in seen:
            continue
        lit = lit or m['k'] == 'literal'
        seen.add(m['py'])
        members.append(m)
        if len(members) == n:
            break
    return {'kind': 'union', 'members': members}


def cousin_pool(pool):
    """literal values replaced by values that compare equal to them but are of another type (0 / False, 1 / True)"""
    inv = {lit_key(v): k for k, v in LIT_COUSIN.items()}
    out = []
    for v in pool['members']:
        if type(v) is int and v in LIT_COUSIN:
            v = LIT_COUSIN[v]
        elif type(v) is bool and lit_key(v) in inv:
            v = inv[lit_key(v)]
        if all(lit_key(v) != lit_key(w) for w in out):
            out.append(v)
    return {'kind': 'literal', 'members': out}


def dedup_first(xs, key):
    out, seen = [], set()
    for x in xs:
        if key(x) not in seen:
            seen.add(key(x))
            out.append(x)
    return out


def spell_pool(rng, pool):
    """one annotation over the pool: an order of (mostly all of) its members x a spelling; returns the plan of the typing
    object the text evaluates to (args flattened, first occurrence kept — what typing does)"""
    ms = list(pool['members'])
    rng.shuffle(ms)
    if len(ms) > 2 and rng.random() < 0.15:
        ms = ms[:-1]                                  # a sub-pool: not equal to the others, but shares members with them
    if pool['kind'] == 'literal':
        lp = lambda vs: 'typing.Literal[%s]' % ', '.join(repr(v) for v in vs)
        r = rng.random()
        if r < 0.6:
            py = lp(ms)
        elif r < 0.8:
            py = lp(ms + [ms[0]])                                                  # a repeated value
        else:
            k = rng.randint(1, len(ms) - 1)
            py = 'typing.Literal[%s, %s]' % (lp(ms[:k]), ', '.join(repr(v) for v in ms[k:]))     # nested Literal
        return {'k': 'literal', 'vs': dedup_first(ms, lit_key), 'py': py}
    none = {'k': 'none', 'py': 'None'}
    up = lambda xs: 'typing.Union[%s]' % ', '.join(x['py'] for x in xs)
    bp = lambda xs: ' | '.join(x['py'] for x in xs)
    r = rng.random()
    if r < 0.22:
        # the Optional spellings (all imply None)
        s = rng.choice(['Optional', 'UnionNone', 'barNone', 'NoneFirst'])
        if s == 'Optional':
            args, py = ms + [none], 'typing.Optional[%s]' % (up(ms) if rng.random() < 0.6 else bp(ms))
        elif s == 'NoneFirst':
            args = [none] + ms
            py = up(args)
        else:
            pos = rng.randint(1, len(ms))
            args = ms[:pos] + [none] + ms[pos:]
            py = up(args) if s == 'UnionNone' else bp(args)
        return {'k': 'union', 'args': args, 'py': py}
    if r < 0.5:
        py = up(ms)
    elif r < 0.75:
        py = bp(ms)
    elif r < 0.85:
        py = up(ms + [ms[rng.randrange(len(ms))]])                                # a repeated member
    elif len(ms) < 3:
        py = 'typing.Union[%s]' % bp(ms)                                          # Union over one `X | Y` argument
    elif r < 0.93:
        py = 'typing.Union[%s, %s]' % (ms[0]['py'], bp(ms[1:]))                   # the two spellings mixed
    else:
        py = 'typing.Union[%s, %s]' % (up(ms[:2]), ', '.join(x['py'] for x in ms[2:]))     # nested Union
    return {'k': 'union', 'args': ms, 'py': py}


def place_ann(rng, t, k, names_mod):
    """where the annotation is written: directly, inside Annotated (without / with a Field), as a string, or through a
    module-level name bound before the class (`names_mod` collects the statements)"""
    r = rng.random()
    t = dict(t, py_feature='perm')
    if r < 0.5:
        return t
    if r < 0.64:
        return {'k': 'annotated', 't': t, 'extras': ['other'], 'py': "typing.Annotated[%s, 'meta']" % t['py'], 'py_feature': 'perm'}
    if r < 0.74:
        fs, fpy = gen_fieldspec(rng, rng.choice(['empty', 'empty', 'empty', 'default', 'factory']))
        return {'k': 'annotated', 't': t, 'extras': [{'field': fs}], 'py': 'typing.Annotated[%s, field(%s)]' % (t['py'], fpy), 'py_feature': 'perm'}
    if r < 0.86:
        return {'k': 'fwd', 't': t, 'py': repr(t['py']), 'py_feature': 'perm'}
    name = 'UA%d_%d' % (k, len(names_mod))
    names_mod.append('%s = %s' % (name, t['py']))
    t2 = dict(t, py=name)
    return t2 if rng.random() < 0.7 else {'k': 'fwd', 't': t2, 'py': repr(name), 'py_feature': 'perm'}


def gen_perm_case(seed, i):
    rng = random.Random('C16:%s:%d:perm' % (seed, i))
    srng = random.Random('C16:%s:%d:perm-spelling' % (seed, i))
    pools = [gen_pool(rng)]
    if rng.random() < 0.5:
        pools.append(cousin_pool(pools[0]) if pools[0]['kind'] == 'literal' and rng.random() < 0.6 else gen_pool(rng))
    n = rng.choice([1, 2, 2, 2, 3, 3, 4])
    names = ['C%d' % k for k in range(n)]
    props = [rng.choice(PROP_CLASSES) for _ in range(3)] if rng.random() < 0.15 else None
    classes = []
    for k, nm in enumerate(names):
        pre = []
        forced = [place_ann(rng, spell_pool(rng, rng.choice(pools)), k, pre) for _ in range(rng.choice([1, 1, 2, 2, 3] if n > 1 else [2, 3]))]
        env = {'aliases': [], 'privs': [], 'fts': [], 'props': props, 'ft_types': [], 'forced': forced}
        c = gen_styled_class(rng, nm, names[k:], env=env, srng=srng)
        if pre:
            c['pre'] = pre
        classes.append(c)
    return {'kind': 'styled', 'classes': classes, 'pools': [[p['kind'], [m['py'] if isinstance(m, dict) else repr(m) for m in p['members']]] for p in pools]}


def nontrivial(case):
    return any(m['k'] == 'prop' and m['settable'] for c in case['classes'] for m in c['members'])


def run(ctx: C.Ctx):
    rng = ctx.rng
    ctx.rule = ('modules of 1..3 classes declared in sequence with metaclass=property_wizard, each executed in a forked child. '
                'styled: 1..3 property fields per class over styles S1 public property+underscored field / S2 public property+'
                'public annotated field / S3 underscored property+public field / S4 underscored property+underscored annotated '
                'field / S5 S2 with the IDE helper `_x: T = field(init=False[, default])`, x default kind none / plain value / '
                'field(default) / field(default_factory) / field() / Annotated[T, field(..)] x annotation kind concrete / other '
                'classes incl. dict- and list-subclasses / typing + PEP 585 generic collections / bare typing aliases / Union, '
                'Optional, X|Y / Literal / Annotated / Any / None / forward reference (resolvable, unresolvable, later class), '
                'among ordinary fields, read-only and ordinary properties, attributes and methods, field order shuffled, properties '
                'before/after their field or at the end; "twins" (a class, then the same class without defaults); module-level '
                'objects shared by the property fields of a case (20%: generic aliases HIDk = Annotated[TV, field(..)] used as '
                'HIDk[int] / HIDk[str] / .., and PRIVk = field(..) assigned in several fields / classes — mostly without default, so '
                'each user must get the default implied by its own type; every Field the source creates is compared with its '
                'declared options after each class); names used in string annotations (FTk, typing.List[FTk], Annotated / Union / '
                'Optional over FTk) that are unbound / bound / re-bound / deleted between the classes of a case (30% of the cases '
                'with >= 2 classes; the same text in every class mostly); properties written with user-defined subclasses of '
                '`property` and abc.abstractproperty (30% of the cases); spelling (a generator of its own per case): public names '
                'of the property fields with interior / trailing underscores and the PEP 8 spellings id_, type_, class_, .. (the '
                'underscored partner is "_" + name), wild pools a_/_a_/b_0_/_b_0_ likewise; setter functions written under '
                'decorators of the user below `@x.setter` (functools.wraps-based — carrying __wrapped__ —, stacked, bare closures; '
                '30% of the settable properties): every call of the setter function by the constructor (default, argument) or by '
                'an assignment must have entered through all of its decorators; wild: arbitrary '
                'member lists over names a/_a/b/_b (shadowing, colliding properties) for model correspondence only; histories of '
                'equal-comparing annotations (a stream of its own, indices from 100000): one or two member pools per case (Union '
                'member types / Literal values, a second pool sometimes the 0/False-1/True cousin of the first) and 1..4 classes '
                'declared in one process whose property fields are annotated with independently drawn orders x spellings of the '
                'pools (Union[..], X | Y, repeated members, nested / mixed Unions, nested Literals, the Optional spellings with None '
                'in any position, sub-pools) written directly, inside Annotated[.., \'meta\' / field(..)], as a string, or through '
                'a module-level name; instances are constructed between the declarations; each class is judged against the '
                'default implied by its own annotation (first member / first value), the model gets the member order of the '
                'object Python made of the text. Per class: '
                'every subset of the optional constructor arguments (<= 4 optional, else empty/full/(co-)singletons), a missing '
                'required argument, an unexpected keyword, a property object as argument; two instances per argument set; later '
                'assignments. Non-trivial = a case with at least one settable property.')
    ctx.trusted += [
        'C16 model (DW/Model/C16.lean) is a hand transcription of property_wizard.py, of CPython class-body name binding, '
        'of dataclasses field collection / __init__ (defaults, init=False, "non-default follows default", mutable-default '
        'and un-annotated-Field errors) and of functools-wrapped setters; only the correspondence check ties it to the code',
        'the T() table of the model (which annotation objects can be called without arguments, what they return, '
        'isinstance(list/dict/set)) is sampled against CPython on every run (law:zero)',
    ]
    ctx.assumptions += [
        'classes without bases (metaclass=property_wizard only); no ClassVar/InitVar/KW_ONLY, no slots/frozen',
        'model correspondence is restricted to bodies whose settable properties are independent (not both x and _x as '
        'properties); colliding bodies are counted and skipped',
        'an un-subscripted typing alias (typing.List) may route its zero value or None: the statement does not say which',
    ]
    quirks = probe_quirks()
    ctx.notes['probed_quirks'] = quirks
    ncases = ctx.quick(1500, 12000)
    budget = ctx.quick(45, 420)            # seconds for the case loop (the machine may be loaded)
    t0 = time.time()
    reqs, pend = [], []

    def flush():
        """one driver batch per chunk of cases (keeps the forking parent small)"""
        if ctx.model_available and reqs:
            outs = ctx.driver.run(reqs)
            for (kind, case, obs), o in zip(pend, outs):
                if 'r' not in o:
                    ctx.agree(kind + ':model', case, impl_canon(obs), {'driver_error': o.get('err')})
                    continue
                if not o['r'].get('independent', True):
                    # two settable properties write the same class attribute (both `x` and `_x` are properties): outside
                    # the documented styles and outside the model (the metaclass may delete `_x` twice and raise, or
                    # mutate the Field carried by an Annotated annotation that the other property reads)
                    ctx.count('not-independent:skipped')
                    continue
                if obs['cls'].startswith('wizard:'):
                    ctx.agree(kind + ':model', case, {'cls': obs['cls']}, {'cls': o['r']['cls']})
                    continue
                ctx.agree(kind + ':model', case, impl_canon(obs), model_canon(o['r'], obs))
        del reqs[:]
        del pend[:]

    # ---- law check: the model's T() table against CPython
    lreqs, lmeta = law_requests()
    limpl = law_impl(lmeta)
    if ctx.model_available and ctx.only is None:
        for py, im, o in zip(lmeta, limpl, ctx.driver.run(lreqs)):
            ctx.seen('law:zero', py, nontrivial=True)
            ctx.agree('law:zero', py, im, o.get('r', {'driver_error': o.get('err')}))

    def evaluate(i, case):
        ctx.seen(case['kind'], case, nontrivial=nontrivial(case))
        res = in_child(observe_case, case)
        if 'crash' in res:
            ctx.fail(case['kind'], case, 'harness child crashed: ' + res['crash'][-400:], detail=dict(src=render_case(case)))
            return
        for ci, (cls, obs) in enumerate(zip(case['classes'], res['ok'])):
            ctx.count('class:' + ('styled' if cls['styled'] else 'wild'))
            ctx.count('cls:' + obs['cls'].split(':')[0])
            for fm in obs.get('fields_modified', ()):
                # a Field the user wrote is a declaration other fields / classes may share: creating a class must leave
                # its options as declared (else what a later user of the object gets depends on who came first)
                ctx.fail(case['kind'], case, '%s: creating the class changed %s of the user\'s %s object from %s to %s'
                         % (cls['name'], fm[1], fm[0], fm[2], fm[3]), detail=dict(src=render_case(case)))
            for bp in obs.get('bypass', ()):
                # the setter of a property is what the user attached to it: the function together with its decorators
                ctx.fail(case['kind'], case, '%s: the setter function of property %s, written under %d decorator(s), was called with %d of '
                         'them entered: a value (default, constructor argument or assignment) did not pass through the setter the '
                         'user attached to the property' % (cls['name'], bp[0], bp[2], bp[1]), detail=dict(src=render_class(cls)))
            for m in cls['members']:
                if m['k'] == 'prop' and m.get('py_sdeco'):
                    ctx.count('dim:decorated-setter')
                if m['k'] == 'prop' and m['n'].endswith('_'):
                    ctx.count('dim:name-with-trailing-underscore')
                if m['k'] == 'prop' and m.get('py_deco', 'property') != 'property':
                    ctx.count('dim:property-subclass')
                if m['k'] in ('ann', 'annAssign') and m['t'].get('py_feature'):
                    ctx.count('dim:' + m['t']['py_feature'])
                if m['k'] == 'annAssign' and m['r'].get('py', '').startswith('PRIV'):
                    ctx.count('dim:priv')
            if ci and cls.get('pre'):
                ctx.count('dim:statements-between-classes')
            for it in cls['items']:
                if it['kind'] == 'propfield':
                    ctx.count('style:' + it['style'])
                    ctx.count('ann:' + it['ty']['k'])
                    ctx.count('default:' + ('none' if it.get('explicit') is None else 'factory' if 'factory' in it['explicit'] else 'plain' if it['explicit'].get('plain') else 'field'))
            if obs['cls'].startswith('wizard:'):
                if cls['styled']:
                    ctx.fail(case['kind'], case, '%s: the metaclass raised %s' % (cls['name'], obs.get('detail')), detail=dict(src=render_class(cls)))
                else:
                    ctx.count('wild:metaclass-raised')
                    reqs.append(model_request(cls, obs, quirks))
                    pend.append((case['kind'], {'class': cls['name'], 'src': render_class(cls), 'index': i}, obs))
                continue
            if cls['styled']:
                oracle(ctx, case, ci, cls, obs, quirks)
            if obs.get('perm_orders'):
                # the model gets the members of an annotation in the order of the object Python made of the text
                if any(o is not None and o != sorted(o) for _, o in obs['perm_orders']):
                    ctx.count('perm:order-taken-from-typing-cache')
                cls = apply_perm_orders(cls, obs['perm_orders'])
                if cls is None:
                    ctx.count('perm:annotation-object-not-as-planned')
                    continue
            reqs.append(model_request(cls, obs, quirks))
            pend.append((case['kind'], {'class': cls['name'], 'src': render_class(cls), 'index': i}, obs))

    # ---- histories of equal-comparing annotations (a stream with generators of its own: the main stream is unchanged)
    nperm = ctx.quick(300, 4000)
    pbudget = ctx.quick(25, 240)
    for j in range(nperm):
        i = PERM_FIRST + j
        if ctx.done(i):
            break
        if ctx.only is None and time.time() - t0 > pbudget:
            ctx.notes['perm_stopped_after_cases'] = j
            break
        case = gen_perm_case(ctx.seed, j)
        if not ctx.begin_case(i):
            continue
        evaluate(i, case)
        ctx.count('perm:cases')
        ctx.count('perm:classes', len(case['classes']))
        if len(reqs) >= 800:
            flush()
    flush()
    t0 = time.time()

    for i in range(ncases):
        if ctx.only is not None and ctx.only >= PERM_FIRST:
            break
        if ctx.done(i):
            break
        if ctx.only is None and time.time() - t0 > budget:
            ctx.notes['stopped_after_cases'] = i
            break
        case = gen_case(rng, i, ctx.seed)
        if not ctx.begin_case(i):
            continue
        evaluate(i, case)
        if len(reqs) >= 800:
            flush()
    flush()
