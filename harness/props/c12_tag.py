"""C12 — two more families of the Meta cascade, each judged against TWIN classes (a class declaring the documented effective Meta
itself, in a module of its own, only ever used on its own):

TAGGED-NESTED (v1 engine)   a nested class N that carries a `tag` and / or a `tag_key` and / or an unknown-key policy of its OWN (and, in a
           part of the cases, a CatchAll field), one or two levels below a root over {tag_key, v1_on_unknown_key} × recursive in {unset,
           True, False}, reached through direct / Optional / list / dict value / tuple.  The tag key a class tolerates in its own document
           is the one of effective(own, ROOT): own tag_key wins, else the root's, else the default; it is tolerated only by a class that has
           a tag (never inherited).  The nested part of the document carries a tag entry under the effective key / the root's key / another
           key / none, and sometimes a really unknown key: it must be accepted, captured by the CatchAll or rejected exactly as by the twin.
           Also: what the root dumps for the nested part loads back through the root whenever what the twin dumps loads back into the twin.
LAZY-LOAD (default engine)  the root sets `recursive_classes` (every dataclass-typed field is then resolved lazily, on first use, by the
           recursion-safe parser) next to the cascading LOAD settings raise_on_unknown_json_key / key_transform_with_load; nested classes
           with no Meta / a Meta of their own that sets other things / one that sets the same settings, at depth one and two, inside
           Optional / list / dict value / tuple, with and without a self-reference of the root (the part then also sits inside a child
           root).  The nested part must load (values, or kind of rejection with the same keys) as the twin of the nested class on its own.

Both draw from generators of their own (derived from (property, seed)), so the case sequences of the older streams are untouched.
"""
from __future__ import annotations

import copy
import json
import random

from harness import model, ref
from harness.model import T
from harness.props.c01 import load_outcome
from harness.props import v1streams

RULE_V1 = ('TAGGED-NESTED FAMILY: a nested class with a tag / tag_key / v1_on_unknown_key of its own (a third with a CatchAll field) one or two levels '
           'below a root over {tag_key, v1_on_unknown_key} × recursive, links direct / Optional / list / dict value / tuple; nested documents carrying a '
           'tag entry under the effective / the root\'s / the default / another key or none, and sometimes an unknown key: accepted, captured or rejected '
           '(with the same unknown keys) exactly as by a twin class declaring effective(own, ROOT) itself; and the root\'s dump of the nested part loads '
           'back through the root whenever the twin\'s own dump loads back.')
RULE = ('LAZY-LOAD FAMILY: root with recursive_classes=True (with / without a self-reference) × raise_on_unknown_json_key × key_transform_with_load × '
        'nested classes with no Meta / an unrelated Meta / own load settings at depth one and two inside Optional / list / dict value / tuple × documents '
        'with keys in several styles and unknown keys, also inside a child root: same outcome as the twin of the nested class (declaring '
        'effective(own, ROOT) itself) on its own.')

V1_TAGGED_BASE = 2_000_000          # added to v1streams.OFFSET
LAZYLOAD_BASE = 1_300_000
LINKS = ['direct', 'direct', 'optional', 'list', 'dictval', 'tuple']
TAG_KEYS = ['__tag__', 'type', 'kind', 'label']


def link_ty(link, n):
    return {'direct': n, 'optional': T('optional', n), 'list': T('list', n), 'dictval': T('dict', T('str'), n), 'tuple': T('tuple', T('int'), n)}[link]


def link_val(link, v):
    return {'direct': v, 'optional': v, 'list': [v], 'dictval': {'k': v}, 'tuple': (1, v)}[link]


def link_doc(link, d):
    return {'direct': d, 'optional': d, 'list': [d], 'dictval': {'k': d}, 'tuple': [1, d]}[link]


def unlink(link, v):
    return v if link in ('direct', 'optional') else v[0] if link == 'list' else v['k'] if link == 'dictval' else v[1]


def outcome(out, get=lambda y: y, names=()):
    """what a load did to the nested part, in terms that do not mention the class"""
    from dataclass_wizard.errors import UnknownKeysError, MissingFields
    if out[0] == 'ok':
        try:
            h = get(out[1])
            return ['ok'] + [[n, type(getattr(h, n)).__name__, repr(getattr(h, n))] for n in names]
        except Exception as e:
            return ['ok?', repr(e)]
    e = out[1]
    if isinstance(e, UnknownKeysError):
        return ['err', 'UnknownKeysError', v1streams.unknown_keys_of(e)]
    if isinstance(e, MissingFields):
        return ['err', 'MissingFields', sorted(e.missing_fields)]
    return ['err', type(e).__name__]


# --------------------------------------------------------------------------- TAGGED-NESTED (v1)

def tagged_case(rng, nm):
    m_r = {'v1': True}
    if rng.random() < 0.5:
        m_r['tag_key'] = rng.choice(['type', 'kind'])
    r = rng.random()
    if r < 0.5:
        m_r['v1_on_unknown_key'] = 'RAISE'
    elif r < 0.65:
        m_r['v1_on_unknown_key'] = 'IGNORE'
    recursive = rng.choice([None, None, None, True, False])
    if recursive is not None:
        m_r['recursive'] = recursive
    m_n = {}
    if rng.random() < 0.75:
        m_n['tag'] = 'ntag'
    if rng.random() < 0.55:
        m_n['tag_key'] = rng.choice(TAG_KEYS)
    if rng.random() < 0.3:
        m_n['v1_on_unknown_key'] = rng.choice(['RAISE', 'IGNORE'])
    if m_n:
        m_n['v1'] = True
    catch = rng.choice([None, None, 'nodefault', 'none', 'dict'])
    fields = [{'name': 'num'}] + ([{'name': 'rest', 'catch_all': True}] if catch == 'nodefault' else []) + [{'name': 'txt', 'dflt': ['lit', 'dflt'], 'factory': False}]
    if catch in ('none', 'dict'):
        fields.append({'name': 'rest', 'catch_all': True, 'dflt': ['lit', None] if catch == 'none' else ['dict'], 'factory': catch == 'dict'})
    ftys = [['num', T('int')], ['txt', T('str')]] + ([['rest', T('any')]] if catch else [])
    names = [f['name'] for f in fields]

    def ncls(name, meta, wizard):
        return {'k': 'cls', 'info': {'name': name, 'fields': copy.deepcopy(fields), 'wizard': wizard, 'meta': meta}, 'ftys': copy.deepcopy(ftys)}
    n = ncls(nm('N'), m_n or None, rng.random() < 0.5)
    eff = v1streams.effective(m_n, m_r)
    m_t = dict({k: eff[k] for k in ('tag', 'tag_key', 'v1_on_unknown_key') if k in eff}, v1=True)
    twin = ncls(nm('W'), m_t, rng.random() < 0.5)
    three = rng.random() < 0.4
    l1, l2 = rng.choice(LINKS), rng.choice(LINKS)
    below = n
    if three:
        # an intermediate class's own settings never reach N
        m_mid = None
        if rng.random() < 0.5:
            m_mid = {'v1': True}
            if rng.random() < 0.6:
                m_mid['tag_key'] = rng.choice(TAG_KEYS)
            if rng.random() < 0.5:
                m_mid['v1_on_unknown_key'] = rng.choice(['RAISE', 'IGNORE'])
        below = {'k': 'cls', 'info': {'name': nm('M'), 'fields': [{'name': 'leaf'}], 'wizard': rng.random() < 0.5, 'meta': m_mid},
                 'ftys': [['leaf', link_ty(l2, n)]]}
    root = {'k': 'cls', 'info': {'name': nm('R'), 'fields': [{'name': 'child'}], 'wizard': rng.random() < 0.5, 'meta': m_r},
            'ftys': [['child', link_ty(l1, below)]]}
    eff_key = eff.get('tag_key') or '__tag__'
    others = [k for k in dict.fromkeys([m_r.get('tag_key') or '__tag__', '__tag__'] + TAG_KEYS) if k != eff_key]
    parts = []
    for _ in range(3):
        part = {'num': rng.choice([1, 7])}
        if rng.random() < 0.6:
            part['txt'] = rng.choice(['x', 'dflt'])
        r = rng.random()
        if r < 0.4:
            tk = eff_key
        elif r < 0.75:
            tk = others[0] if rng.random() < 0.6 else rng.choice(others)
        else:
            tk = None
        if tk is not None:
            part = dict([(tk, eff.get('tag', 'ntag'))] + list(part.items())) if rng.random() < 0.5 else dict(part, **{tk: eff.get('tag', 'ntag')})
        if rng.random() < 0.2:
            part['zzz_unknown'] = 1
        parts.append(part)
    return dict(root=root, n=n, twin=twin, eff=eff, three=three, links=[l1, l2] if three else [l1], below=below, parts=parts, names=names,
                m_r=m_r, m_n=m_n or None, vals=dict(num=rng.choice([3, -1]), txt=rng.choice(['y', 'dflt'])))


def run_tagged_v1(ctx, rng, reqs=None, pend=None):
    from dataclass_wizard import fromdict, asdict
    n = ctx.quick(260, 3000)
    for j in range(n):
        i = v1streams.OFFSET + V1_TAGGED_BASE + j
        if ctx.done(i):
            break
        cs = tagged_case(rng, v1streams.Namer(V1_TAGGED_BASE + j))
        root, twin, links, three = cs['root'], cs['twin'], cs['links'], cs['three']
        try:
            built = model.Built(root)
        except Exception as e:
            ctx.count('build_error')
            ctx.notes.setdefault('build_errors', []).append(repr(e)[:300])
            continue
        try:
            built_t = model.Built(twin)
        except Exception as e:
            built.close()
            ctx.count('build_error')
            ctx.notes.setdefault('build_errors', []).append(repr(e)[:300])
            continue
        try:
            if not ctx.begin_case(i):
                continue
            src = dict(src=built.source + '\n# ---- twin (module of its own)\n' + built_t.source.replace(model.PRELUDE, ''))
            l1 = links[0]
            l2 = links[1] if three else None

            def get(y):
                v = unlink(l1, y.child)
                return unlink(l2, v.leaf) if three else v

            def whole(part):
                return json.loads(json.dumps({'child': link_doc(l1, {'leaf': link_doc(l2, part)} if three else part)}))
            base = {'family': 'tagged-v1', 'engine': 'v1', 'ty': root, 'links': links, 'effective': cs['eff'], 'root_meta': cs['m_r'], 'own_meta': cs['m_n'],
                    'twin': twin['info']['name']}
            for part in cs['parts']:
                doc = whole(part)
                case = dict(base, doc=repr(doc)[:500])
                ctx.seen('cascade:v1:tagged:' + ('3' if three else '2'), case)
                want = outcome(load_outcome(lambda: fromdict(built_t.root, copy.deepcopy(part))), names=cs['names'])
                out = load_outcome(lambda: fromdict(built.root, copy.deepcopy(doc)))
                got = outcome(out, get, cs['names'])
                ctx.count('v1:tagged:' + want[0])
                if reqs is not None:
                    st = model.StdTables()
                    st.add_json(doc)
                    reqs.append({'op': 'loadv1', 'ty': model.enc_ty(root), 'doc': model.enc_j(doc), 'std': st.build()})
                    pend.append((case, out, built))
                if got != want:
                    ctx.fail('cascade:v1:tagged', case, f'the nested part {part!r} loaded below this root (Meta {cs["m_r"]!r}, own Meta {cs["m_n"]!r}) gives {got!r}; a class '
                             f'declaring the documented effective settings {cs["eff"]!r} itself gives {want!r}'[:1200], detail=src)
            # ---- what is dumped for the nested part loads back (whenever the twin's own dump loads back into the twin)
            N, W = built.get(cs['n']['info']['name']), built_t.root
            # (an empty CatchAll field holds what a load leaves there: its default None, else an empty dict)
            rest_none = any(f.get('catch_all') and f.get('dflt') == ['lit', None] for f in cs['n']['info']['fields'])
            kw = dict(cs['vals'], **({'rest': None if rest_none else {}} if 'rest' in cs['names'] else {}))
            nv, wv = N(**kw), W(**kw)
            inner = link_val(l1, built.get(cs['below']['info']['name'])(leaf=link_val(l2, nv)) if three else nv)
            x = built.root(child=inner)
            case = dict(base, inst=repr(x))
            ctx.seen('cascade:v1:tagged:roundtrip', case)
            t_out = load_outcome(lambda: fromdict(W, json.loads(json.dumps(asdict(wv)))))
            if t_out[0] == 'ok' and t_out[1] == wv:
                try:
                    d = json.loads(json.dumps(asdict(x)))
                except Exception as e:
                    ctx.fail('cascade:v1:tagged', case, f'asdict of the root raised {e!r}', detail=src)
                    continue
                out = load_outcome(lambda: fromdict(built.root, copy.deepcopy(d)))
                if out[0] != 'ok' or out[1] != x:
                    ctx.fail('cascade:v1:tagged', case, f'the root dumps {d!r}; loading that through the root gives {out!r} (the twin declaring {cs["eff"]!r} loads its own '
                             f'dump back)'[:1200], detail=src)
            else:
                ctx.count('v1:tagged:twin-dump-not-loadable')
        finally:
            built.close()
            built_t.close()


# --------------------------------------------------------------------------- LAZY-LOAD (default engine, recursive_classes)

WORDS = [('when', 'at'), ('opt', 'val'), ('num', 'count')]
STYLERS = {
    'snake': lambda ws: '_'.join(ws),
    'camel': lambda ws: ws[0] + ''.join(w.title() for w in ws[1:]),
    'pascal': lambda ws: ''.join(w.title() for w in ws),
    'lisp': lambda ws: '-'.join(ws),
    'upper': lambda ws: '_'.join(ws).upper(),
}
LOAD_TRANSFORMS = ['CAMEL', 'PASCAL', 'SNAKE', 'LISP', 'NONE']
SHAPES = ['direct', 'optional', 'list', 'dictval', 'tuple', 'two-levels', 'two-levels', 'list-of-optional']
UNRELATED = [{'key_transform_with_dump': 'SNAKE'}, {'skip_defaults': True}, {'marshal_date_time_as': 'TIMESTAMP'}, {}]


def lazyload_case(rng):
    fstyle = rng.choice(['snake', 'camel', 'camel', 'pascal'])
    names = [STYLERS[fstyle](ws) for ws in WORDS]
    m_r = {'recursive_classes': True}
    if rng.random() < 0.7:
        m_r['key_transform_with_load'] = rng.choice(LOAD_TRANSFORMS)
    r = rng.random()
    if r < 0.55:
        m_r['raise_on_unknown_json_key'] = True
    elif r < 0.65:
        m_r['raise_on_unknown_json_key'] = False
    recursive = rng.choice([None, None, None, True, False])
    if recursive is not None:
        m_r['recursive'] = recursive
    # a self-reference of the root (what recursive_classes is there for); not under recursive=False, where the setting does not reach the
    # root's own fields (recorded: findings/selfref-recursive-false-auto-tags-dump.py)
    selfref = rng.choice([None, 'optional', 'optional', 'list']) if recursive is not False else None
    r = rng.random()
    if r < 0.45:
        m_n = None
    elif r < 0.75:
        m_n = dict(rng.choice(UNRELATED))
    else:
        m_n = {}
        if rng.random() < 0.6:
            m_n['key_transform_with_load'] = rng.choice(LOAD_TRANSFORMS)
        if rng.random() < 0.6:
            m_n['raise_on_unknown_json_key'] = rng.choice([True, False])
    shape = rng.choice(SHAPES)

    def ncls(name, meta, wizard):
        fields = [{'name': names[0]}, {'name': names[1], 'dflt': ['lit', None], 'factory': False}, {'name': names[2], 'dflt': ['lit', 0], 'factory': False}]
        ftys = [[names[0], T('int')], [names[1], T('optional', T('str'))], [names[2], T('int')]]
        return {'k': 'cls', 'info': {'name': name, 'fields': fields, 'wizard': wizard, 'meta': meta}, 'ftys': ftys}
    n = ncls(model.fresh('N'), m_n, rng.random() < 0.5)
    own = model.own_meta(n['info'])
    eff = ref.effective_meta(own, ref.root_config(m_r))
    m_t = {k: eff[k] for k in ('key_transform_with_load', 'raise_on_unknown_json_key') if k in eff}
    twin = ncls(model.fresh('Twin'), m_t or None, rng.random() < 0.5)
    mid = None
    if shape == 'two-levels':
        # an intermediate class, half of them with a Meta of their own that sets something else: its settings never reach N, and the
        # root's still do
        mid = {'k': 'cls', 'info': {'name': model.fresh('Mid'), 'fields': [{'name': 'deep_one'}], 'wizard': rng.random() < 0.5,
                                    'meta': dict(rng.choice(UNRELATED)) if rng.random() < 0.5 else None},
               'ftys': [['deep_one', link_ty(rng.choice(['direct', 'direct', 'optional', 'list']), n)]]}

    def root_of(name, meta, selfref):
        inner = {'direct': lambda: n, 'optional': lambda: T('optional', n), 'list': lambda: T('list', n), 'dictval': lambda: T('dict', T('str'), n),
                 'tuple': lambda: T('tuple', T('int'), n), 'list-of-optional': lambda: T('list', T('optional', n)), 'two-levels': lambda: T('list', mid)}[shape]()
        fields, ftys = [{'name': 'nested_fld'}], [['nested_fld', inner]]
        if selfref:
            back = {'k': 'ref', 'name': name}
            fields.append({'name': 'again', 'dflt': ['lit', None] if selfref == 'optional' else ['list'], 'factory': selfref == 'list'})
            ftys.append(['again', T('optional', back) if selfref == 'optional' else T('list', back)])
        return {'k': 'cls', 'info': {'name': name, 'fields': fields, 'wizard': rng.random() < 0.5, 'meta': meta}, 'ftys': ftys}
    root = root_of(model.fresh('R'), m_r, selfref)
    docs = []
    for kstyle in rng.sample(['snake', 'camel', 'pascal', 'lisp', 'upper', 'exact'], 3):
        keys = names if kstyle == 'exact' else [STYLERS[kstyle](ws) for ws in WORDS]
        part = {keys[0]: rng.choice([1, 7])}
        if rng.random() < 0.7:
            part[keys[1]] = rng.choice(['x', None])
        if rng.random() < 0.7:
            part[keys[2]] = rng.choice([0, 4])
        if rng.random() < 0.4:
            part['zzz_unknown'] = 1
        docs.append((kstyle, part, selfref is not None and rng.random() < 0.5))
    return dict(root=root, n=n, twin=twin, mid=mid, shape=shape, fstyle=fstyle, eff=eff, docs=docs, selfref=selfref, names=names, m_r=m_r, m_n=m_n)


def run_lazy_load(ctx, reqs=None, pend=None):
    from dataclass_wizard import fromdict
    rng = random.Random(f'{ctx.prop_id}:{ctx.seed}:lazy-load')
    n = ctx.quick(260, 3000)
    for j in range(n):
        i = LAZYLOAD_BASE + j
        if ctx.done(i):
            break
        cs = lazyload_case(rng)
        root, twin, shape, mid, selfref = cs['root'], cs['twin'], cs['shape'], cs['mid'], cs['selfref']
        try:
            built = model.Built(root)
        except Exception as e:
            ctx.count('build_error')
            ctx.notes.setdefault('build_errors', []).append(repr(e)[:300])
            continue
        try:
            built_t = model.Built(twin)
        except Exception as e:
            built.close()
            ctx.count('build_error')
            ctx.notes.setdefault('build_errors', []).append(repr(e)[:300])
            continue
        try:
            if not ctx.begin_case(i):
                continue
            src = dict(src=built.source + '\n# ---- twin\n' + built_t.source.replace(model.PRELUDE, ''))
            l2 = None
            if mid is not None:
                t2 = mid['ftys'][0][1]
                l2 = 'direct' if t2['k'] == 'cls' else t2['k']

            def whole(part, deep):
                inner = {'direct': part, 'optional': part, 'list': [part], 'dictval': {'k': part}, 'tuple': [1, part], 'list-of-optional': [part, None],
                         'two-levels': [{'deep_one': link_doc(l2, part) if l2 else part}]}[shape]
                doc = {'nested_fld': inner}
                if deep:
                    # the part sits inside a child root
                    good = {cs['names'][0]: 1}
                    g_inner = {'direct': good, 'optional': good, 'list': [good], 'dictval': {'k': good}, 'tuple': [1, good], 'list-of-optional': [good, None],
                               'two-levels': [{'deep_one': link_doc(l2, good) if l2 else good}]}[shape]
                    doc = {'nested_fld': g_inner, 'again': doc if selfref == 'optional' else [doc]}
                return json.loads(json.dumps(doc))

            def get_in(y, deep):
                if deep:
                    y = y.again if selfref == 'optional' else y.again[0]
                v = y.nested_fld
                if shape == 'two-levels':
                    return unlink(l2, v[0].deep_one)
                return {'direct': lambda: v, 'optional': lambda: v, 'list': lambda: v[0], 'dictval': lambda: v['k'], 'tuple': lambda: v[1],
                        'list-of-optional': lambda: v[0]}[shape]()
            for kstyle, part, deep in cs['docs']:
                doc = whole(part, deep)
                case = {'family': 'lazy-load', 'ty': root, 'shape': shape, 'field_style': cs['fstyle'], 'key_style': kstyle, 'doc': repr(doc)[:500],
                        'effective': cs['eff'], 'twin': twin['info']['name'], 'selfref': selfref, 'inside_child_root': deep}
                ctx.seen('cascade:lazy-load:' + shape, case)
                want = outcome(load_outcome(lambda: fromdict(built_t.root, copy.deepcopy(part))), names=cs['names'])
                out = load_outcome(lambda: fromdict(built.root, copy.deepcopy(doc)))
                got = outcome(out, lambda y: get_in(y, deep), cs['names'])
                ctx.count('lazy-load:' + want[0])
                if reqs is not None:
                    st = model.StdTables()
                    st.add_json(doc)
                    reqs.append({'op': 'load', 'ty': model.enc_ty(model.unroll(root, 2)), 'doc': model.enc_j(doc), 'std': st.build()})
                    pend.append((case, out, built))
                if got != want:
                    ctx.fail('cascade:lazy-load', case, f'nested part {part!r} (keys in {kstyle} style, fields in {cs["fstyle"]} style) loaded through the root (Meta '
                             f'{cs["m_r"]!r}, own Meta {cs["m_n"]!r}) gives {got!r}; a class declaring the documented effective Meta {cs["eff"]!r} itself gives '
                             f'{want!r}'[:1200], detail=src)
        finally:
            built.close()
            built_t.close()
