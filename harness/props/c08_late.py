"""C08 part D — the alias / path / casing clauses for a class whose *first use fails* and is then repeated.

The class models of part B get one more field, `link`, annotated with a forward reference to a dataclass that does not
exist yet when the class is first loaded / dumped (it is defined further down the module, or later in a REPL): the first
attempts (1..2, either direction, method or module function) run before the referenced class exists and are expected to
fail (NameError from resolving the annotation; their outcome is not judged).  Then the class is defined in the module and
the very same kind of calls is made again: from here on every load and the dump are judged by the documentation
reference of part B (`ref_load` / `ref_dump`) — which key reaches which field does not depend on how many attempts it took
to get the class's functions built.  The `link` field sits at a random position among the fields (required: `'L'`,
`'list[L]'` / `list['L']`; or `Optional['L'] = None` among the defaulted fields), so the set-up of the class is
interrupted after any number of alias / path fields.

Oracle only: the Lean alias model (driver op "c08") is stateless apart from its dump-first flag; the interrupted set-up has
no counterpart there.
"""
from __future__ import annotations

import copy

from harness import model
from harness.props import c08_e2e as E
from harness.props import c08_nest as N

LINK_FORMS = ['direct', 'direct', 'list-whole', 'list-inner', 'optional-whole', 'optional-inner']
PATH_FORMS = ('path_field', 'ann_path', 'alias_path')


def gen_scenario(rng, engine):
    cm = E.gen_class(rng, engine)
    n_req = len([f for f in cm['fields'] if f['dflt'] is None])
    form = rng.choice(LINK_FORMS)
    # Path fields may sit on both sides of the late annotation: the path tables of a class used to be filled "only while empty"
    # (both engines), so a set-up interrupted after the first path field left them partly filled for good and the path fields
    # declared after the late annotation were lost - repaired by 4bfffcd (findings/path-tables-partly-filled-after-failed-first-use.py
    # keeps the directed reproduction); the shape is part of the stream again.
    paths = []

    def positions(form):
        lo, hi = (n_req, len(cm['fields'])) if form.startswith('optional') else (0, n_req)
        return [p for p in range(lo, hi + 1) if not (paths and min(paths) < p <= max(paths))]
    if not positions(form):
        form = rng.choice([x for x in LINK_FORMS if x.startswith('optional') != form.startswith('optional')])
    pos = rng.choice(positions(form))          # (IndexError: no admissible position at all - counted as a generator retry)
    attempts = []
    first = cm['first_op']
    for k in range(rng.choice([1, 1, 2])):
        attempts.append({'op': first if k == 0 else rng.choice(['load', 'dump']), 'api': rng.choice(['method', 'function'])})
    docs = E.gen_docs(cm, rng, 5)
    steps = []
    order = ['dump', 'load'] if first == 'dump' else ['load', 'dump']
    counter = 7000
    for op in order:
        if op == 'dump':
            steps.append({'op': 'dump', 'api': rng.choice(['method', 'function']),
                          'vals': {f['name']: (counter := counter + 1) for f in cm['fields']}})
        else:
            for di in range(len(docs)):
                steps.append({'op': 'load', 'api': rng.choice(['method', 'function']), 'doc': di})
    return {'cm': cm, 'link': {'form': form, 'pos': pos, 'wizard': rng.random() < 0.3}, 'attempts': attempts,
            'docs': [d for _k, d in docs], 'steps': steps}


def render(sc, cname, lname):
    cm = sc['cm']
    lines = E.render_class(cm, cname).rstrip('\n').split('\n')
    nf = len(cm['fields'])
    head, flines = lines[:len(lines) - nf], lines[len(lines) - nf:]
    form = sc['link']['form']
    ann = {'direct': repr(lname), 'list-whole': repr(f'list[{lname}]'), 'list-inner': f'list[{lname!r}]',
           'optional-whole': repr(f'Optional[{lname}]') + ' = None', 'optional-inner': f'Optional[{lname!r}] = None'}[form]
    flines.insert(sc['link']['pos'], f'    link: {ann}')
    return '\n'.join(head + flines) + '\n'


def late_src(sc, lname):
    base = f'({sc["cm"]["base"]})' if sc['link']['wizard'] else ''
    return f'@dataclass\nclass {lname}{base}:\n    tag: int = 0\n'


def _wrap(form, x):
    return [x] if form.startswith('list') else x


def run_history(sc, fail, count=None, seen=None):
    """execute the scenario on freshly built classes; `fail(step_index, what, src)` for every judged step whose outcome the
    documentation reference does not allow (step index -1: the scenario could not be set up)"""
    cm = sc['cm']
    form = sc['link']['form']
    cname, lname = model.fresh('A'), model.fresh('L')
    src = render(sc, cname, lname)
    built = E.build_module(cm, src)
    shown = E.shown_src(cm, src) + '# ... first attempts ...\n' + late_src(sc, lname)
    rules = E.ref_rules(cm)
    collides = E._collides(rules)
    lk, dk = N.own_keys(sc, 'link')
    try:
        Cls = built.get(cname)
        # ---- the attempts made while the referenced class does not exist
        for at in sc['attempts']:
            if at['op'] == 'load':
                doc = copy.deepcopy(sc['docs'][0])
                doc[lk] = _wrap(form, {})
                kind, res = N._load(Cls, at['api'], doc)
            else:
                try:
                    obj = Cls(**{f['name']: 1 for f in cm['fields']}, link=_wrap(form, None))
                    kind, res = N._dump(obj, at['api'])
                except Exception as e:             # noqa
                    kind, res = 'exc', repr(e)
            if count:
                count('late:attempt_' + ('failed' if kind != 'ok' else 'ok'))
        # ---- the referenced class is defined (same module, further down)
        exec(compile(late_src(sc, lname), f'<{built.modname}:late>', 'exec', dont_inherit=True), built.mod.__dict__)
        Late = built.mod.__dict__[lname]
        for si, st in enumerate(sc['steps']):
            where = f'step {si + 1}/{len(sc["steps"])} ({st["op"]}, {st["api"]}) after {len(sc["attempts"])} attempt(s) made before {lname} existed'
            if seen:
                seen(f'late:{cm["engine"]}:{st["op"]}', si)
            if st['op'] == 'load':
                inner = sc['docs'][st['doc']]
                ref = E.ref_load(cm, inner)
                doc = copy.deepcopy(inner)
                doc[lk] = _wrap(form, {})
                kind, res = N._load(Cls, st['api'], doc)
                if kind == 'exc':
                    fail(si, f'{where}: {res} escaped from the load of {doc!r}', shown)
                    continue
                if ref[0] == 'err':
                    if kind == 'ok':
                        fail(si, f'{where}: a required field has no value under any of its keys / paths, yet {doc!r} loaded as {res!r}', shown)
                    continue
                if kind != 'ok':
                    if '__unjudged__' not in ref[1]:
                        fail(si, f'{where}: every required field is present under a documented key / path, yet loading {doc!r} failed with {res}', shown)
                    continue
                for n, acc in ref[1].items():
                    if acc is None:
                        continue
                    gv = getattr(res, n)
                    if type(gv) is not int or gv not in acc:
                        fail(si, f'{where}: field {n} loaded {gv!r} from {doc!r}, the documented sources give {sorted(acc)}', shown)
                        break
                else:
                    lv = res.link[0] if form.startswith('list') and isinstance(res.link, list) and res.link else res.link
                    if not isinstance(lv, Late):
                        fail(si, f'{where}: the field annotated with the late class loaded {res.link!r} from {doc[lk]!r}', shown)
            else:
                try:
                    obj = Cls(**st['vals'], link=_wrap(form, Late()))
                except Exception as e:             # noqa
                    fail(si, f'{where}: constructing the instance failed: {e!r}', shown)
                    continue
                kind, res = N._dump(obj, st['api'])
                if kind != 'ok':
                    fail(si, f'{where}: {res} escaped from the dump', shown)
                    continue
                if collides:
                    continue                       # colliding dump targets: no documented outcome
                res = dict(res)
                res.pop(dk, None)
                want = E.ref_dump(cm, st['vals'])
                if E.canon_doc(E.enc_doc(res)) != E.canon_doc(E.enc_doc(want)):
                    fail(si, f'{where}: dumped {res!r} (without the {dk!r} entry), the documented targets give {want!r}', shown)
    finally:
        built.close()


def run(ctx, rng):
    ctx.rule += (' | first use fails: the same alias class models with one more field annotated by a forward reference ('
                 "'L', list['L'], Optional['L'] = None, whole or inner string, at any position among the fields) to a dataclass that is "
                 'defined only after 1..2 failed first loads / dumps of the class; then the dump and every document of the class are '
                 'judged by the documentation reference.')
    n = ctx.quick(500, 5000)
    for ci in range(n):
        engine = 'default' if ci % 2 == 0 else 'v1'
        try:
            sc = gen_scenario(rng, engine)
        except IndexError:
            ctx.count('late:gen_retry')
            continue
        idx = 400000 + ci
        if not ctx.begin_case(idx):
            if ctx.done(idx):
                break
            continue
        if ctx.done(idx):
            break

        def fail(si, what, src, sc=sc):
            ctx.fail(f'oracle:late:{sc["cm"]["engine"]}', {'scenario': dict(sc, docs=[E.enc_doc(d) for d in sc['docs']]), 'step': si}, what, detail=src)
        sc_enc = dict(sc, docs=[E.enc_doc(d) for d in sc['docs']])
        try:
            run_history(sc, fail, count=ctx.count, seen=lambda k, si, sc_enc=sc_enc: ctx.seen(k, [sc_enc, si]))
        except Exception as e:                     # noqa
            ctx.count('late:build_error')
            ctx.notes.setdefault('late_build_errors', []).append(repr(e)[:300])
