"""Proper subclasses of stdlib value types (values of a subclass conform to the annotated base type)."""
import datetime as dt
import decimal
import uuid


class SubDateTime(dt.datetime):
    pass


class SubDate(dt.date):
    pass


class SubTime(dt.time):
    pass


class SubDecimal(decimal.Decimal):
    pass


class SubUUID(uuid.UUID):
    pass


def to_sub(v):
    if type(v) is dt.datetime:
        return SubDateTime(v.year, v.month, v.day, v.hour, v.minute, v.second, v.microsecond, v.tzinfo)
    if type(v) is dt.date:
        return SubDate(v.year, v.month, v.day)
    if type(v) is dt.time:
        return SubTime(v.hour, v.minute, v.second, v.microsecond, v.tzinfo)
    if type(v) is decimal.Decimal:
        return SubDecimal(v)
    if type(v) is uuid.UUID:
        return SubUUID(int=v.int)
    return v
