"""History dimension "the first use of a class fails inside the library's per-class setup and is retried" (C03, C11).

A field of a dataclass is annotated with a *string* that names a class which does not exist yet (a forward reference: the
class is defined further down in the module, or imported later).  The library resolves such annotations when it first
sets a class up for dumping / loading, so a use that comes too early fails (NameError) - on any version, and that is fine.
What the properties claim is about the uses *after* the missing class has appeared: they must give what a class that
never saw the failed attempt gives (= the reference), whatever the failed attempt left behind in the per-class tables.

`StagedBuilt` materialises a class model in two stages: the definitions named in `deferred` are executed only by
`define_deferred()`.
"""
from __future__ import annotations

import collections
import copy
import sys
import types

from harness import gen, model
from harness.model import T

# how the not-yet-defined class C is mentioned in the string annotation
FWD_SHAPES = {'bare': lambda c: c, 'optional': lambda c: T('optional', c), 'list': lambda c: T('list', c),
              'dict': lambda c: T('dict', T('str'), c), 'list_opt': lambda c: T('list', T('optional', c))}
FIRST_USES = [['dump'], ['dump'], ['dump'], ['load'], ['load'], ['dump', 'dump'], ['load', 'dump'], ['dump', 'load'], ['method']]


class StagedBuilt(model.Built):
    def __init__(self, root_ty, deferred, extra_src=''):
        defs = collections.OrderedDict()
        self.root_name = model.ty_src(root_ty, defs)
        stage1 = '\n'.join(s for n, s in defs.items() if s and n not in deferred)
        self.stage2 = '\n'.join(s for n, s in defs.items() if s and n in deferred)
        self.source = (model.PRELUDE + '\n' + stage1 + '\n' + extra_src +
                       '\n# ---- executed only after the first (failing) uses of the classes above\n' + self.stage2)
        self.modname = model.fresh('dwv_mod_')
        self.mod = types.ModuleType(self.modname)
        sys.modules[self.modname] = self.mod
        self.root_ty = root_ty
        self.defined = False
        try:
            exec(compile(model.PRELUDE + '\n' + stage1 + '\n' + extra_src, f'<{self.modname}>', 'exec', dont_inherit=True), self.mod.__dict__)
        except Exception:
            self.close()
            raise
        self.infos = {}
        model._collect_infos(root_ty, self.infos)

    def define_deferred(self):
        exec(compile(self.stage2, f'<{self.modname}:2>', 'exec', dont_inherit=True), self.mod.__dict__)
        self.defined = True


def add_forward_field(rng, ty, o, p_root=0.7):
    """give one dataclass of `ty` (mostly the root) a field whose annotation is a string naming a fresh small class, placed
    towards the front so that declarations of later fields come after it.  Returns the spec of the history:
    {'cls': owner class, 'field': name, 'shape': .., 'deferred': [definition names executed late], 'first': [uses]}"""
    infos = {}
    model._collect_infos(ty, infos)
    owner = ty if rng.random() < p_root or len(infos) == 1 else infos[rng.choice(sorted(n for n in infos if infos[n] is not ty))]
    c = gen.gen_cls(rng, 0, o, nested=True)
    dc = collections.OrderedDict()
    model.ty_src(c, dc)
    shape = rng.choice(sorted(FWD_SHAPES))
    info = owner['info']
    used = {f['name'] for f in info['fields']}
    fname = gen.field_name(rng, used)
    f = {'name': fname, 'ann_str': True}
    first_dflt = next((i for i, g in enumerate(info['fields']) if g.get('dflt') is not None), len(info['fields']))
    if shape in ('optional', 'list', 'dict', 'list_opt') and rng.random() < 0.4:
        f['dflt'] = ['lit', None] if shape == 'optional' else ['dict'] if shape == 'dict' else ['list']
        f['factory'] = shape != 'optional'
        lo, hi = first_dflt, len(info['fields'])
    else:
        lo, hi = 0, first_dflt
    idx = rng.choice([lo, lo, rng.randint(lo, hi)])
    info['fields'].insert(idx, f)
    owner['ftys'].append([fname, FWD_SHAPES[shape](c)])
    return {'cls': info['name'], 'field': fname, 'shape': shape, 'deferred': sorted(dc), 'first': rng.choice(FIRST_USES)}


def early_instance(rng, ty, built, spec):
    """an instance of the root that can exist before the deferred class does: the forward field holds None everywhere"""
    ty0 = copy.deepcopy(ty)
    infos = {}
    model._collect_infos(ty0, infos)
    node = infos[spec['cls']]
    node['ftys'] = [[n, (T('none') if n == spec['field'] else ft)] for n, ft in node['ftys']]
    return gen.gen_instance(rng, ty0, built, use_defaults_prob=0.0)


def first_uses(rng, built, x0, spec):
    """run the too-early uses; returns [[use, outcome]] (what happened is recorded, never judged)"""
    from dataclass_wizard import asdict, fromdict
    out = []
    for use in spec['first']:
        try:
            if use == 'dump':
                asdict(x0)
            elif use == 'load':
                fromdict(built.root, {})
            elif hasattr(x0, 'to_json'):
                x0.to_json()
            else:
                asdict(x0)
            out.append([use, 'ok'])
        except Exception as e:
            out.append([use, type(e).__name__])
    return out
