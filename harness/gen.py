"""Seeded generators: type expressions, class models, conforming values, JSON documents, junk."""
from __future__ import annotations

import collections
import datetime as dt
import decimal
import pathlib
import uuid

from harness.model import T, fresh

WORDS = ['ab', 'my', 'id', 'txt', 'val', 'name', 'fld', 'count', 'data', 'item', 'key', 'user', 'flag', 'size', 'zone']


def field_name(rng, used):
    for _ in range(100):
        n = rng.randint(1, 3)
        ws = [rng.choice(WORDS) + (str(rng.randint(0, 9)) if rng.random() < 0.15 else '') for _ in range(n)]
        name = '_'.join(ws)
        # a one-letter last word, also right after a word ending in a digit (vec3_x, ab_y): still a canonical
        # snake_case name whose camel / pascal spelling leads back to it
        if rng.random() < 0.12:
            name += '_' + rng.choice('xywq')
        if name not in used and name.lower() not in {u.lower() for u in used}:
            used.add(name)
            return name
    raise RuntimeError('no name')


# --------------------------------------------------------------------------- arbitrary identifiers (NONE key transform)
# Field names as people write them when they are NOT canonical snake_case: camelCase, PascalCase, ALLCAPS, single letters in
# either case, leading / trailing / doubled underscores, digits, non-ASCII letters - and, the point of the dimension, several
# names of one class that are different identifiers but the same text under some folding (letter case, '_' dropped):
# `t` / `T`, `id` / `ID` / `Id`, `userName` / `user_name` / `username`, `x1` / `X1` / `x_1`.
IDENT_STEMS = ['t', 'x', 'n', 'id', 'ab', 'url', 'name', 'val', 'key', 'user', 'size', 'zone', 'data', 'é', 'ß', 'k', 'straße', 'i']
_RESERVED = None


def _reserved():
    global _RESERVED
    if _RESERVED is None:
        import keyword
        import builtins
        import typing
        _RESERVED = set(keyword.kwlist) | set(keyword.softkwlist) | set(dir(builtins)) | set(typing.__all__) | {
            'field', 'dataclass', 'date', 'time', 'datetime', 'timedelta', 'Decimal', 'Path', 'UUID', 'Enum', 'self', 'cls'}
    return _RESERVED


def _spell(rng, words):
    """one spelling of a list of lower-case words as an identifier"""
    style = rng.choice(['snake', 'camel', 'pascal', 'caps', 'caps_snake', 'joined', 'Title_Snake', 'dbl', 'mixed'])
    if style == 'snake':
        s = '_'.join(words)
    elif style == 'camel':
        s = words[0] + ''.join(w[:1].upper() + w[1:] for w in words[1:])
    elif style == 'pascal':
        s = ''.join(w[:1].upper() + w[1:] for w in words)
    elif style == 'caps':
        s = ''.join(words).upper()
    elif style == 'caps_snake':
        s = '_'.join(words).upper()
    elif style == 'joined':
        s = ''.join(words)
    elif style == 'Title_Snake':
        s = '_'.join(w[:1].upper() + w[1:] for w in words)
    elif style == 'dbl':
        s = '__'.join(words)
    else:
        s = '_'.join(w.upper() if rng.random() < 0.5 else w for w in words)
    r = rng.random()
    if r < 0.12:
        s = '_' + s
    elif r < 0.22:
        s = s + '_'
    elif r < 0.34:
        s = s + rng.choice(['1', '_1', '2'])
    return s


def _respell(rng, name):
    """another identifier that is the same text as `name` under a folding: letter case, underscores"""
    f = rng.choice([str.lower, str.upper, str.swapcase, str.capitalize, str.title,
                    lambda s: s[:1].swapcase() + s[1:], lambda s: s[:-1] + s[-1:].swapcase(),
                    lambda s: s.replace('_', ''), lambda s: s.replace('_', '__'),
                    lambda s: '_'.join(s) if len(s) <= 3 else s.replace('_', '', 1),
                    lambda s: ''.join(c.upper() if rng.random() < 0.5 else c.lower() for c in s)])
    return f(name)


def any_identifier(rng, used, collide=0.4, forbidden=()):
    """a field name drawn from all identifiers (see above); with probability `collide` a re-spelling of a name already in `used`"""
    for _ in range(200):
        if used and rng.random() < collide:
            name = _respell(rng, rng.choice(sorted(used)))
        else:
            name = _spell(rng, [rng.choice(IDENT_STEMS) for _ in range(rng.choice([1, 1, 1, 2, 2, 3]))])
        if (name.isidentifier() and name not in used and name not in _reserved() and name not in forbidden
                and not name.startswith('__') and not name.strip('_') == ''):
            used.add(name)
            return name
    raise RuntimeError('no identifier')


LEAVES_DEFAULT = ['int', 'float', 'str', 'bool', 'decimal', 'path', 'uuid', 'date', 'time', 'datetime', 'timedelta', 'any']


class Opts:
    def __init__(self, **kw):
        self.leaves = LEAVES_DEFAULT
        self.containers = ['list', 'set', 'frozenset', 'deque', 'tuple', 'vtuple', 'dict', 'defaultdict', 'ordereddict']
        self.allow_optional = True
        self.allow_union = True
        self.allow_enum = True
        self.allow_literal = True
        self.allow_nt = True
        self.allow_td = True
        self.allow_cls = True
        self.allow_tagged_union = True
        self.max_fields = 5
        self.meta_prob = 0.5
        self.meta_keys = ['key_transform_with_dump', 'key_transform_with_load', 'marshal_date_time_as', 'skip_defaults']
        self.defaults_prob = 0.4
        self.alias_prob = 0.0
        self.wizard_prob = 0.85
        self.py_wizard_prob = 0.2
        # additive dimensions, off unless a property file turns them on (no RNG draw is made for them while they are 0)
        self.enum_mixin_prob = 0.0      # an Enum leaf is a str / int mix-in Enum, IntEnum or StrEnum
        self.enum_prob = None           # weight of Enum among the leaves (None: the historical 0.12)
        self.sub_leaf_prob = 0.0        # a leaf is a user-defined subclass of one of `sub_bases` (model kind 'sub')
        self.sub_bases = ['date', 'datetime']
        self.enum_words_prob = 0.0      # an Enum leaf is a "word" Enum: realistic member names, values that read like (other) members' names
        self.nt_weight = 1              # weight of NamedTuple among the composite kinds (1: the historical weight; no extra RNG draw)
        self.nt_default_prob = 0.3      # a NamedTuple field (and every one after it) has a default
        self.falsy_prob = 0.0           # Optional[..] positions (Optional[Any] included) prefer falsy-but-valid values; Literal / Enum get falsy members
        self.__dict__.update(kw)


ENUM_MIXINS = {'int': ['int', 'IntEnum'], 'str': ['str', 'StrEnum']}


ENUM_WORDS = ['A', 'T', 'C', 'G', 'WHITE', 'BLACK', 'DARK_BLUE', 'LIGHT_RED', 'ON', 'OFF', 'NEXT', 'PREV', 'UP', 'DOWN',
              'NOT_YET', 'X1', 'red', 'Blue', 'darkGreen', 'TOP_LEFT_2']
# spellings under which a text can "read like" the member name N: as it is, other letter case, blanks / dashes for '_'
NAME_SPELLINGS = [lambda n: n, lambda n: n.lower(), lambda n: n.upper(), lambda n: n.lower().replace('_', ' '),
                  lambda n: n.replace('_', ' ').title(), lambda n: n.capitalize(), lambda n: n.replace('_', ' '),
                  lambda n: n.lower().replace('_', '-'), lambda n: ' ' + n + ' ']


def gen_word_enum(rng, o):
    """An Enum the way lookup tables are written: member names are words, and the *values* are drawn from spellings of
    the names of members of the same Enum (A='T', T='A'; WHITE='black', BLACK='white'; DARK_BLUE='dark blue'), next to
    unrelated texts and numbers. Members are dumped as their value and loaded back by value, so whatever else a value
    reads like must not matter."""
    n = rng.randint(2, 4)
    names = rng.sample(ENUM_WORDS, n)
    perm = names[:]
    rng.shuffle(perm)                      # fixed points allowed: a value may also read like the member's own name
    members, seen = [], []
    for nm, other in zip(names, perm):
        r = rng.random()
        if r < 0.75:
            v = rng.choice(NAME_SPELLINGS)(other)
        elif r < 0.9:
            v = rng.choice(['game over', 'n/a', 'x y', '?'])
        else:
            v = rng.choice([2, 5, 11])
        if any(v == w for w in seen):      # equal values would make the member an alias
            v = f'{v} {len(seen)}'
        seen.append(v)
        members.append([nm, v])
    t = T('enum', name=fresh('E'), members=members)
    if o.enum_mixin_prob > 0 and all(isinstance(v, str) for _, v in members) and rng.random() < o.enum_mixin_prob:
        t['mixin'] = rng.choice(ENUM_MIXINS['str'])
    return t


def gen_enum(rng, o=None):
    if o is not None and o.enum_words_prob > 0 and rng.random() < o.enum_words_prob:
        return _falsy_member(rng, gen_word_enum(rng, o), o)
    name = fresh('E')
    mixin = None
    if o is not None and o.enum_mixin_prob > 0 and rng.random() < o.enum_mixin_prob:
        # members of a mix-in Enum are values of the mixed-in type
        kind = rng.choice(['int', 'str'])
        mixin = rng.choice(ENUM_MIXINS[kind])
    else:
        kind = rng.choice(['int', 'str', 'mixed'])
    n = rng.randint(1, 4)
    members = []
    for i in range(n):
        if kind == 'int' or (kind == 'mixed' and i % 2 == 0):
            v = i * 3 + 2          # avoid 0/1 (== False/True)
        else:
            v = rng.choice(['x', 'yy', 'Zed', 'a b']) + str(i)
        members.append([f'M{i}', v])
    if mixin is not None:
        return _falsy_member(rng, T('enum', name=name, members=members, mixin=mixin), o)
    return _falsy_member(rng, T('enum', name=name, members=members), o)


def _falsy_member(rng, t, o):
    """(Opts.falsy_prob) one member of the Enum gets a falsy value of the Enum's value type: '' / 0"""
    if o is None or o.falsy_prob <= 0 or rng.random() >= o.falsy_prob:
        return t
    mx = t.get('mixin')
    cands = [0] if mx in ('int', 'IntEnum') else [''] if mx in ('str', 'StrEnum') else ['', '', 0, 0.0]
    v = rng.choice(cands)
    if not any(w == v for _, w in t['members']):
        rng.choice(t['members'])[1] = v
    return t


def gen_literal(rng, o=None):
    pool = [7, -3, 'on', 'Off', 'x y', True, None, 12, 'abc']
    if o is not None and o.falsy_prob > 0 and rng.random() < o.falsy_prob:
        # falsy members ('' / 0 / False; 0 and False never together: Literal[0, False] is Literal[0] at run time)
        pool = pool[:rng.randint(0, 3)] + rng.choice([['', 0], [''], ['', False], [0], [False], ['']])
        rng.shuffle(pool)
        vs = []
        for v in pool:
            if not any(v == w for w in vs):
                vs.append(v)
        return T('literal', vs=vs)
    rng.shuffle(pool)
    vs = []
    for v in pool[:rng.randint(1, 4)]:
        if any((v == w and type(v) is not type(w)) or (v is w) for w in vs):
            continue
        vs.append(v)
    # avoid bool/int collisions (1 == True)
    if True in vs:
        vs = [v for v in vs if not (type(v) is int and v in (0, 1))]
    return T('literal', vs=vs)


def gen_type(rng, depth, o: Opts, hashable=False):
    """A random type expression. `hashable`: usable as set element / dict key."""
    r = rng.random()
    if depth <= 0 or r < 0.45:
        choices = list(o.leaves)
        if hashable:
            choices = [c for c in choices if c not in ('any',)]
        if o.sub_leaf_prob > 0 and rng.random() < o.sub_leaf_prob:
            return T('sub', base=rng.choice(o.sub_bases), name=fresh('Sub'))
        if o.allow_enum and rng.random() < (0.12 if o.enum_prob is None else o.enum_prob):
            return gen_enum(rng, o)
        if o.allow_literal and rng.random() < 0.08:
            return gen_literal(rng, o)
        k = rng.choice(choices)
        if k == 'clsobj':
            return T(k, sp=rng.choice(['type', 'type', 'Type', 'Any']))
        return T(k)
    if hashable:
        k = rng.choice(['tuple', 'vtuple', 'optional', 'frozenset'])
        if k == 'optional':
            return _falsy_mark(T('optional', gen_type(rng, depth - 1, o, True)), o)
        if k == 'tuple':
            return T('tuple', *[gen_type(rng, depth - 1, o, True) for _ in range(rng.randint(1, 3))])
        if k == 'vtuple':
            return T('vtuple', gen_type(rng, depth - 1, o, True))
        return T('frozenset', gen_type(rng, 0, o, True))
    kinds = list(o.containers)
    if o.allow_optional:
        kinds += ['optional'] * 2
    if o.allow_union:
        kinds += ['union']
    if o.allow_nt:
        kinds += ['namedtuple'] * o.nt_weight
    if o.allow_td:
        kinds += ['typeddict']
    if o.allow_cls:
        kinds += ['cls'] * 2
    k = rng.choice(kinds)
    if k in ('list', 'deque', 'vtuple'):
        return T(k, gen_type(rng, depth - 1, o))
    if k in ('set', 'frozenset'):
        return T(k, gen_type(rng, min(depth - 1, 1), o, True))
    if k == 'tuple':
        return T('tuple', *[gen_type(rng, depth - 1, o) for _ in range(rng.randint(1, 3))])
    if k in ('dict', 'defaultdict', 'ordereddict'):
        kt = T(rng.choice(['str', 'str', 'str', 'int', 'date', 'uuid'])) if rng.random() < 0.8 else gen_type(rng, 0, o, True)
        # JSON object keys are text: keep key types whose text form loads back (str-valued Enum / Literal members)
        if kt['k'] == 'enum':
            if kt.get('mixin') in ('int', 'IntEnum'):
                kt['mixin'] = {'int': 'str', 'IntEnum': 'StrEnum'}[kt['mixin']]
            kt['members'] = [[m, v if isinstance(v, str) else f's{v}'] for m, v in kt['members']]
        elif kt['k'] == 'literal':
            kt['vs'] = [v for v in kt['vs'] if isinstance(v, str)] or ['only']
        vt = gen_type(rng, depth - 1, o)
        if k == 'defaultdict' and vt['k'] not in ('int', 'str', 'list', 'dict', 'float', 'bool', 'set'):
            vt = T('list', T('int'))
        return T(k, kt, vt)
    if k == 'optional':
        inner = gen_type(rng, depth - 1, o)
        if inner['k'] in ('optional', 'none', 'any', 'union') and not (inner['k'] == 'any' and o.falsy_prob > 0):
            inner = T('int')
        return opt_spelling(rng, _falsy_mark(T('optional', inner), o))
    if k == 'union':
        return gen_union(rng, depth, o)
    if k == 'namedtuple':
        used = set()
        n = rng.randint(1, 3)
        fields, seen_default = [], False
        for _ in range(n):
            d = None
            if seen_default or rng.random() < o.nt_default_prob:
                d = ['lit', rng.choice([0, 'dflt', None, 2.5])]
                seen_default = True
            fields.append([field_name(rng, used), gen_type(rng, depth - 1, o) if d is None else _ty_for_lit(d[1]), d])
        return T('namedtuple', name=fresh('NT'), fields=fields)
    if k == 'typeddict':
        used = set()
        fields = [[field_name(rng, used), gen_type(rng, depth - 1, o), rng.random() < 0.7] for _ in range(rng.randint(1, 3))]
        return T('typeddict', name=fresh('TD'), fields=fields)
    if k == 'cls':
        return gen_cls(rng, depth - 1, o)
    raise ValueError(k)


def _ty_for_lit(v):
    if v is None:
        return T('optional', T('int'))
    return T({int: 'int', str: 'str', float: 'float', bool: 'bool'}[type(v)])


def _falsy_mark(t, o):
    """(Opts.falsy_prob) the Optional node carries the weight with which gen_value picks a falsy-but-valid value for it"""
    if o.falsy_prob > 0:
        t['falsy'] = o.falsy_prob
    return t


def opt_spelling(rng, t):
    """Optional[X] is also spelled Union[None, X] (same meaning; the engines have a shortcut for two-member Unions)"""
    if rng.random() < 0.25:
        t['sp'] = 'none_first'
    return t


def gen_union(rng, depth, o: Opts):
    """Union of JSON-distinguishable members: distinct JSON kinds among str/int/float/bool/list/dict,
    optionally None, optionally tagged dataclasses."""
    kinds = ['str', 'int', 'float', 'bool', 'list', 'dict']
    rng.shuffle(kinds)
    members = []
    for k in kinds[:rng.randint(1, 3)]:
        if k == 'list':
            members.append(T('list', gen_type(rng, max(depth - 2, 0), o)))
        elif k == 'dict':
            members.append(T('dict', T('str'), gen_type(rng, max(depth - 2, 0), o)))
        else:
            members.append(T(k))
    if o.allow_tagged_union and o.allow_cls and rng.random() < 0.5 and not any(m['k'] == 'dict' for m in members):
        for _ in range(rng.randint(1, 3)):
            c = gen_cls(rng, max(depth - 2, 0), o, nested=True)
            meta = c['info'].get('meta') or {}
            meta['tag'] = fresh('tag')
            c['info']['meta'] = meta
            members.append(c)
    if rng.random() < 0.4:
        members.append(T('none'))
    if len(members) == 1:
        members.append(T('none'))
    if len(members) == 2 and members[1]['k'] == 'none':
        return opt_spelling(rng, _falsy_mark(T('optional', members[0]), o))
    rng.shuffle(members)
    return T('union', *members)


CASES = ['CAMEL', 'PASCAL', 'LISP', 'SNAKE', 'NONE']


def gen_meta(rng, o: Opts, nested=False):
    meta = {}
    for k in o.meta_keys:
        if rng.random() < 0.4:
            if k in ('key_transform_with_dump', 'key_transform_with_load'):
                meta[k] = rng.choice(CASES)
            elif k == 'marshal_date_time_as':
                meta[k] = rng.choice(['TIMESTAMP', 'ISO_FORMAT'])
            elif k in ('skip_defaults', 'raise_on_unknown_json_key', 'auto_assign_tags'):
                meta[k] = rng.choice([True, False])
            elif k == 'recursive':
                meta[k] = rng.choice([True, False])
            elif k == 'tag_key':
                meta[k] = rng.choice(['type', '__tag__', 'kind', 'my tag'])
            elif k in ('skip_if', 'skip_defaults_if'):
                meta[k] = gen_cond(rng)
    return meta


def gen_cond(rng, simple=True):
    op = rng.choice(['==', '!=', '<', '<=', '>', '>=', 'is', 'is not', '+', '!'])
    if op in '+!':
        return {'op': op, 'val': None}
    if op in ('is', 'is not'):
        return {'op': op, 'val': rng.choice([None, True, False])}
    if op in ('==', '!='):
        return {'op': op, 'val': rng.choice([None, True, False, 0, 1, -1, 5, 2.5, '', 'x', 'abc'])}
    return {'op': op, 'val': rng.choice([0, 1, -1, 5, 2.5, -0.5, 'm', ''])}


def simple_default_for(rng, t):
    """A default (Dflt encoding) whose value conforms to t, or None."""
    k = t['k']
    if k == 'int':
        return ['lit', rng.choice([0, 1, -7, 42])]
    if k == 'str':
        return ['lit', rng.choice(['', 'dflt', 'x y'])]
    if k == 'bool':
        return ['lit', rng.choice([True, False])]
    if k == 'float':
        return ['lit', rng.choice([0.0, 1.5, -2.0])]
    if k == 'optional':
        return ['lit', None]
    if k == 'any':
        return ['lit', rng.choice([None, 3, 'a'])]
    if k == 'list':
        return ['list']
    if k == 'dict':
        return ['dict']
    if k == 'set':
        return ['set']
    if k == 'vtuple':
        return ['tuple']
    return None


def gen_cls(rng, depth, o: Opts, nested=False, name=None):
    used = set()
    n = rng.randint(1, o.max_fields)
    fields, ftys = [], []
    pending = []
    for _ in range(n):
        ft = gen_type(rng, depth, o)
        d = simple_default_for(rng, ft) if rng.random() < o.defaults_prob else None
        pending.append((ft, d))
    # dataclass rule: fields without default first
    pending.sort(key=lambda p: p[1] is not None)
    for ft, d in pending:
        fname = field_name(rng, used)
        f = {'name': fname}
        if d is not None:
            f['dflt'] = d
            f['factory'] = d[0] != 'lit'
        fields.append(f)
        ftys.append([fname, ft])
    info = {'name': name or fresh('C'), 'fields': fields,
            'wizard': ('py' if rng.random() < o.py_wizard_prob else True) if rng.random() < o.wizard_prob else False}
    if rng.random() < o.meta_prob:
        info['meta'] = gen_meta(rng, o, nested)
    else:
        info['meta'] = None
    return {'k': 'cls', 'info': info, 'ftys': ftys}


# --------------------------------------------------------------------------- values

TZS = [None, None, dt.timezone.utc, dt.timezone(dt.timedelta(hours=5, minutes=30)), dt.timezone(dt.timedelta(hours=-8)),
       dt.timezone(dt.timedelta(seconds=30)), dt.timezone(dt.timedelta(0), 'UTC')]


SUBS = False     # when True, some leaf values are instances of proper subclasses (C03)
TEXT = None      # optional callable rng -> str: where the text of `str` values (fields, elements, dict keys and values, texts below Any) is drawn from


# --------------------------------------------------------------------------- text over the whole character range
# A `str` value is any sequence of code points. The classes below partition what writers / readers of text formats treat
# differently: what must be escaped, what is a line break to some reader, what a code page lacks, what needs two UTF-16 units,
# what reads like a scalar of another type, what is folded at a line width.
CHAR_CLASSES = {
    'ascii-alnum': 'abcxyzABZ019',
    'ascii-blank': ' ',
    'ascii-punct': ':#-?,[]{}&*!|>\'"%@`=.~<+/\\;$^()_',
    'c0-break': '\n\r\t',
    'c0-control': '\x00\x01\x07\x08\x0b\x0c\x1b\x1c\x1d\x1e\x1f\x7f',
    'c1-control': ''.join(map(chr, range(0x80, 0xa0))),                         # U+0085 NEXT LINE is one of them
    'latin1': '\xa0\xa1\xad\xb5\xdf\xe9\xe8\xef\xfc\xff\xd7',
    'cp1252-extra': '\u20ac\u201c\u201d\u2013\u2026\u0153\u017e',
    'bmp-letter': '\u03b1\u03a9\u0416\u044f\u05d0\u0627\u0e01\u6f22\u65e5\u672c\u8a9e\uac00\u0131\u0130\u01c5',
    'combining': '\u0301\u0308\u20e3\u093f\ufe0f',
    'unicode-space': '\u1680\u2000\u2003\u2009\u200a\u202f\u205f\u3000',
    'unicode-break': '\u2028\u2029',
    'format': '\u200b\u200c\u200d\u200e\u200f\u202a\u202e\u2060\ufeff\u061c',
    'private-nonchar': '\ue000\uf8ff\ufdd0\ufffe\uffff\ufffd\ufffc',
    'astral': '\U0001f600\U0001f468\U00010000\U0001d11e\U00020000\U000e0001\U000f0000\U0010fffd\U0010ffff\U0001fffe',
    'surrogate': '\ud800\udbff\udc00\udfff',
}
CHAR_CLASS_WEIGHTS = [('ascii-alnum', 5), ('ascii-blank', 3), ('ascii-punct', 3), ('c0-break', 2), ('c0-control', 2), ('c1-control', 4),
                      ('latin1', 3), ('cp1252-extra', 2), ('bmp-letter', 3), ('combining', 1), ('unicode-space', 1), ('unicode-break', 2),
                      ('format', 2), ('private-nonchar', 1), ('astral', 2), ('surrogate', 1)]
# texts that read like a scalar of another type / like syntax in some text format
LOOKALIKE_TEXT = ['null', '~', 'Null', 'yes', 'No', 'on', 'off', 'true', 'False', 'y', 'n', '0x1F', '0o17', '1_000', '1e3', '.5', '.inf', '-.Inf', '.nan',
                  '+1', '012', '1:30', '2001-12-14', '2001-12-14T21:59:43.10-05:00', '<<', '=', '---', '...', '- a', 'a: b', 'a #b', '#', '!!str x', '&a', '*a',
                  '[1]', '{a: 1}', '|', '>', '%TAG', '@x', '`x`', '"', "'", "''", '""', '\\', '\\n', '\\x85', '\\u0085', '[[t]]', 'a = 1', 'a.b', '{{', '1979-05-27 07:32:00']


import re as _re
_SURROGATE_PAIR = _re.compile('[\ud800-\udbff]+(?=[\udc00-\udfff])')


def any_text(rng, max_len=12):
    """a `str` drawn from all texts: a few character classes mixed, any length from 0 (now and then far beyond a writer's line width),
    blanks / breaks at either end, or a text that reads like something else"""
    r = rng.random()
    if r < 0.12:
        s = rng.choice(LOOKALIKE_TEXT)
        return s if rng.random() < 0.7 else s + any_text(rng, 4)
    names = [n for n, _w in CHAR_CLASS_WEIGHTS]
    weights = [w for _n, w in CHAR_CLASS_WEIGHTS]
    classes = rng.choices(names, weights, k=rng.choice([1, 1, 2, 2, 3]))
    n = rng.choice([0, 1, 1, 2, 3, 5, 8, max_len]) if r < 0.93 else rng.randint(70, 200)
    if n > 20 and rng.random() < 0.7:
        classes.append('ascii-blank')                       # long lines with places where a writer may fold them
    s = ''.join(rng.choice(CHAR_CLASSES[rng.choice(classes)]) for _ in range(n))
    e = rng.random()
    if e < 0.08:
        s = rng.choice(' \n\t\x85\u2028\xa0\ufeff') + s
    elif e < 0.16:
        s = s + rng.choice(' \n\t\x85\u2028\xa0\r')
    # a high surrogate directly before a low one is not a text of its own in any encoding form (it *is* the astral character): lone ones only
    return _SURROGATE_PAIR.sub('', s)


def any_text_value(rng):
    """what an Any position may hold when it holds text: a text, or texts inside the plain containers (keys included)"""
    r = rng.random()
    if r < 0.6:
        return any_text(rng)
    if r < 0.8:
        return [any_text(rng) for _ in range(rng.randint(1, 3))]
    return {any_text(rng): rng.choice([any_text(rng), 1, None, [any_text(rng)]]) for _ in range(rng.randint(1, 2))}
CATCH_ALL_VALUES = None   # optional callable (rng, cls type node, built, size) -> the mapping held by a CatchAll field (C03)


def gen_scalar(rng, k):
    v = _gen_scalar(rng, k)
    if SUBS and rng.random() < 0.15:
        from harness.subtypes import to_sub
        if k == 'any' and rng.random() < 0.5:
            v = _gen_scalar(rng, rng.choice(['datetime', 'date', 'time', 'decimal', 'uuid']))
        return to_sub(v)
    return v


def _gen_scalar(rng, k):
    if k == 'int':
        return rng.choice([0, 1, -1, 7, 42, -1000, 2 ** 31, 2 ** 63 + 5, -(10 ** 25), rng.randint(-10 ** 6, 10 ** 6)])
    if k == 'float':
        return rng.choice([0.0, -0.0, 1.0, 1.5, -2.25, 0.1, 1e16, 1.5e300, 5e-324, 2.5, 3.5, -0.5, 123456.789,
                           float('inf'), rng.random() * 1000])
    if k == 'str':
        if TEXT is not None:
            return TEXT(rng)
        return rng.choice(['', 'a', 'hello world', 'Zed', '123', '1.5', 'true', 'None', 'Z+00:00', 'é漢', 'a"b\'c\\', ' x ', '\n', '2020-01-01'])
    if k == 'bool':
        return rng.choice([True, False])
    if k == 'none':
        return None
    if k == 'any':
        if TEXT is not None and rng.random() < 0.6:
            return any_text_value(rng) if TEXT is any_text else TEXT(rng)
        return rng.choice([None, 1, 'x', 2.5, True, [1, 'a'], {'k': [1, 2]}, []])
    if k == 'decimal':
        return decimal.Decimal(rng.choice(['0', '1.50', '-3.14159', '1E+3', '0.000001', '123456789012345678901234567890.5', '-0', 'Infinity']))
    if k == 'path':
        return pathlib.Path(rng.choice(['a/b', '.', '/x y', 'file.txt', '../up', '/']))
    if k == 'uuid':
        return uuid.UUID(int=rng.getrandbits(128))
    if k == 'date':
        return dt.date(rng.choice([1, 999, 1970, 2000, 2024, 9999]), rng.randint(1, 12), rng.randint(1, 28))
    if k == 'time':
        return dt.time(rng.randint(0, 23), rng.randint(0, 59), rng.choice([0, 0, 59, rng.randint(0, 59)]),
                       rng.choice([0, 0, 1, 500000, 999999]), tzinfo=rng.choice(TZS))
    if k == 'datetime':
        return dt.datetime(rng.choice([1971, 2000, 2024, 2038, 1999]), rng.randint(1, 12), rng.randint(1, 28),
                           rng.randint(0, 23), rng.randint(0, 59), rng.choice([0, 0, 59]),
                           rng.choice([0, 0, 1, 250000, 999999]), tzinfo=rng.choice(TZS))
    if k == 'timedelta':
        return dt.timedelta(days=rng.choice([0, 0, 1, 2, 400]), seconds=rng.choice([0, 1, 59, 3600, 86399]),
                            microseconds=rng.choice([0, 0, 1, 500000]))
    if k == 'bytes':
        return rng.choice([b'', b'abc', bytes(range(5)), b'\xff\x00'])
    if k == 'bytearray':
        return bytearray(rng.choice([b'', b'abc', b'\x01\x02']))
    raise ValueError(k)


def gen_value(rng, t, built, size=3):
    """A Python value conforming to type `t` (classes taken from `built`)."""
    k = t['k']
    a = t.get('a', [])
    if t.get('rec'):
        # a wrapper on the way to a 'ref' (recursive class models, see rec_link): the recursion ends when the size is used up
        if size <= 0:
            return rec_terminal(t)
        if k == 'optional' and rng.random() < 0.7:
            return gen_value(rng, a[0], built, size)
    if k == 'ref':
        return gen_instance(rng, built.infos[t['name']], built, size - 1)
    if k in ('int', 'float', 'str', 'bool', 'none', 'any', 'decimal', 'path', 'uuid', 'date', 'time', 'datetime',
             'timedelta', 'bytes', 'bytearray'):
        return gen_scalar(rng, k)
    if k == 'enum':
        E = built.get(t['name'])
        return rng.choice(list(E))
    if k == 'clsobj':
        return class_object(rng, built)
    if k == 'sub':
        return sub_value(built.get(t['name']), _gen_scalar(rng, t['base']))
    if k == 'annpat':
        return gen_value(rng, a[0], built, size)
    if k == 'literal':
        return rng.choice(t['vs'])
    if k == 'selfref':
        return gen_instance(rng, built.infos[t['name']], built, size - 1)
    if k == 'optional' and a[0]['k'] == 'selfref' and size <= 0:
        return None          # the chain of self references ends
    if k == 'optional':
        if t.get('falsy') and rng.random() < t['falsy']:
            # the boundary between "no value" and a value: what is falsy / empty and still a value of the wrapped type
            v = falsy_value(rng, a[0], built)
            if v is not _NO_FALSY:
                return v
        return None if rng.random() < 0.3 else gen_value(rng, a[0], built, size)
    if k == 'union':
        m = rng.choice(a)
        return gen_value(rng, m, built, size)
    n = rng.choice([0, 1, 2, size])
    if size < -6:
        n = 0                # only reached through chains of self references
    if k == 'list':
        return [gen_value(rng, a[0], built, size - 1) for _ in range(n)]
    if k == 'deque':
        return collections.deque(gen_value(rng, a[0], built, size - 1) for _ in range(n))
    if k in ('set', 'frozenset'):
        xs = _dedup([gen_value(rng, a[0], built, size - 1) for _ in range(n)])
        return set(xs) if k == 'set' else frozenset(xs)
    if k == 'vtuple':
        return tuple(gen_value(rng, a[0], built, size - 1) for _ in range(n))
    if k == 'tuple':
        return tuple(gen_value(rng, x, built, size - 1) for x in a)
    if k in ('dict', 'defaultdict', 'ordereddict'):
        items = []
        for _ in range(n):
            items.append((gen_value(rng, a[0], built, 1), gen_value(rng, a[1], built, size - 1)))
        items = [(kk, vv) for kk, vv in items if _hashable(kk)]
        d = dict(items)
        if k == 'defaultdict':
            factory = {'int': int, 'str': str, 'list': list, 'dict': dict, 'float': float, 'bool': bool, 'set': set}[a[1]['k']]
            return collections.defaultdict(factory, d)
        if k == 'ordereddict':
            return collections.OrderedDict(d)
        return d
    if k == 'namedtuple':
        NT = built.get(t['name'])
        return NT(*[gen_value(rng, ft, built, size - 1) for _, ft, _d in t['fields']])
    if k == 'typeddict':
        out = {}
        for n_, ft, req in t['fields']:
            if req or rng.random() < 0.6:
                out[n_] = gen_value(rng, ft, built, size - 1)
        return out
    if k == 'cls':
        return gen_instance(rng, t, built, size - 1)
    raise ValueError(k)


class PlainClass:
    """a user class that is neither a dataclass nor anything else the library knows"""


BUILTIN_CLASS_OBJECTS = [int, str, dict, object, dt.date, decimal.Decimal, PlainClass, collections.OrderedDict]


def class_object(rng, built):
    """a value that is a *class object* (what a `type` / `Type[...]` / `Any` position may hold): a builtin or stdlib class, a
    plain user class, or one of the classes of the module under test - its dataclasses (wizard or not), Enums, NamedTuples"""
    own = [v for n, v in sorted(vars(built.mod).items()) if isinstance(v, type) and getattr(v, '__module__', None) == built.modname]
    import dataclasses
    dcs = [c for c in own if dataclasses.is_dataclass(c)]
    r = rng.random()
    if dcs and r < 0.5:
        return rng.choice(dcs)
    if own and r < 0.65:
        return rng.choice(own)
    return rng.choice(BUILTIN_CLASS_OBJECTS)


REC_LINKS = ['optional', 'optional', 'list', 'dictval', 'vtuple', 'deque', 'optional-list', 'pair', 'list-of-optional']


def rec_link(kind, target):
    """a type that reaches `target` (a 'ref' node, or a class model that leads to one) and has a value that ends the recursion
    (None / an empty container); every wrapper node is marked 'rec' so that gen_value can end the recursion there"""
    R = lambda k, *a: dict(T(k, *a), rec=True)
    return {'optional': lambda: R('optional', target), 'list': lambda: R('list', target), 'dictval': lambda: R('dict', T('str'), target),
            'vtuple': lambda: R('vtuple', target), 'deque': lambda: R('deque', target), 'optional-list': lambda: R('optional', R('list', target)),
            'pair': lambda: T('tuple', T('int'), R('optional', target)), 'list-of-optional': lambda: R('list', R('optional', target))}[kind]()


def rec_default(kind):
    """the natural default of a recursive field of that link (None / an empty container), or None when it has none"""
    return {'optional': ['lit', None], 'list': ['list'], 'dictval': ['dict'], 'vtuple': ['tuple'], 'optional-list': ['lit', None],
            'list-of-optional': ['list']}.get(kind)


def rec_terminal(t):
    k = t['k']
    if k == 'optional':
        return None
    return {'list': list, 'dict': dict, 'vtuple': tuple, 'deque': collections.deque}[k]()


_NO_FALSY = object()


def falsy_value(rng, t, built):
    """a value of type `t` whose truth value is False (or that is empty), or _NO_FALSY when the type has none"""
    k = t['k']
    a = t.get('a', [])
    table = {'str': [''], 'int': [0], 'float': [0.0, -0.0], 'bool': [False], 'bytes': [b''],
             'any': ['', '', 0, 0.0, False, [], {}], 'decimal': [decimal.Decimal('0'), decimal.Decimal('0.00')],
             'timedelta': [dt.timedelta(0)], 'time': [dt.time(0, 0)]}
    if k in table:
        return rng.choice(table[k])
    if k == 'bytearray':
        return bytearray()
    if k == 'literal':
        c = [v for v in t['vs'] if v is not None and not v]
        return rng.choice(c) if c else _NO_FALSY
    if k == 'enum':
        c = [m for m in built.get(t['name']) if not m.value]
        return rng.choice(c) if c else _NO_FALSY
    if k == 'list':
        return []
    if k == 'deque':
        return collections.deque()
    if k == 'set':
        return set()
    if k == 'frozenset':
        return frozenset()
    if k == 'vtuple':
        return ()
    if k == 'dict':
        return {}
    if k == 'ordereddict':
        return collections.OrderedDict()
    if k == 'union':
        c = [v for v in (falsy_value(rng, m, built) for m in a if m['k'] not in ('none', 'cls')) if v is not _NO_FALSY]
        return rng.choice(c) if c else _NO_FALSY
    return _NO_FALSY


def sub_value(cls, v):
    """the value v of a stdlib leaf type as an instance of its subclass `cls`"""
    if isinstance(v, dt.datetime):
        return cls(v.year, v.month, v.day, v.hour, v.minute, v.second, v.microsecond, tzinfo=v.tzinfo)
    if isinstance(v, dt.date):
        return cls(v.year, v.month, v.day)
    if isinstance(v, dt.time):
        return cls(v.hour, v.minute, v.second, v.microsecond, tzinfo=v.tzinfo)
    return cls(v)


def _hashable(x):
    try:
        hash(x)
        return True
    except TypeError:
        return False


def _dedup(xs):
    out = []
    for x in xs:
        if not _hashable(x):
            continue
        if not any(x == y for y in out):
            out.append(x)
    return out


def gen_instance(rng, t, built, size=3, use_defaults_prob=0.3):
    C = built.get(t['info']['name'])
    kw = {}
    ftys = dict((n, ft) for n, ft in t['ftys'])
    for f in t['info']['fields']:
        if not f.get('init', True):
            continue
        if f.get('dflt') is not None and rng.random() < use_defaults_prob:
            continue
        if f.get('catch_all') and CATCH_ALL_VALUES is not None:
            kw[f['name']] = CATCH_ALL_VALUES(rng, t, built, size)
            continue
        if f.get('catch_all'):
            kw[f['name']] = {} if rng.random() < 0.5 else {'extra_' + str(i): rng.choice([1, 'v', None, [1]]) for i in range(rng.randint(1, 2))}
            continue
        kw[f['name']] = gen_value(rng, ftys[f['name']], built, size)
    return C(**kw)


JUNK = [None, True, False, 0, 1, -1, 2.5, float('nan'), float('inf'), 10 ** 30, '', 'x', 'abc', '12', '1.5', 'true',
        [], [1], ['a', 'b'], {}, {'a': 1}, [[1]], [{'a': 1}], {'__tag__': 'zz'}, '2020-01-01', '2020-01-01T00:00:00Z', 'Z']


def junk(rng):
    return rng.choice(JUNK)
