"""Independent Python transcriptions of the *documented* behaviour (used by the oracles only).
Nothing here imports the library's load/dump machinery.
"""
from __future__ import annotations

import base64
import collections
import copy
import dataclasses
import datetime as dt
import decimal
import enum
import json
import math
import pathlib
import uuid


# canonical snake_case names only (words joined by single '_')
def camel(n):
    ws = n.split('_')
    return ws[0] + ''.join(w[:1].upper() + w[1:] for w in ws[1:])


def pascal(n):
    return ''.join(w[:1].upper() + w[1:] for w in n.split('_'))


def lisp(n):
    return n.replace('_', '-')


KEY_FUNCS = {'CAMEL': camel, 'PASCAL': pascal, 'LISP': lisp, 'SNAKE': lambda n: n, 'NONE': lambda n: n}

MERGEABLE = ['key_transform_with_load', 'key_transform_with_dump', 'marshal_date_time_as', 'skip_defaults', 'skip_if',
             'skip_defaults_if', 'raise_on_unknown_json_key', 'tag_key', 'auto_assign_tags', 'recursive_classes']
SPECIAL = ['tag', 'recursive']


def effective_meta(own, cfg):
    """documented cascade: nested own settings win, other mergeable ones come from the root, special never inherited"""
    own = {k: v for k, v in (own or {}).items() if v is not None}
    cfg = {k: v for k, v in (cfg or {}).items() if v is not None}
    eff = {}
    for k in MERGEABLE:
        if k in own:
            eff[k] = own[k]
        elif k in cfg:
            eff[k] = cfg[k]
    for k in SPECIAL:
        if k in own:
            eff[k] = own[k]
    return eff


def root_config(own):
    if own is None:
        return None
    if own.get('recursive') is False:
        return None
    return own


def eval_cond(c, v):
    """reference semantics of a Condition via the operator module (raises TypeError like Python does)"""
    import operator
    op, val = c['op'], c.get('val')
    if op == '+':
        return bool(v)
    if op == '!':
        return not v
    return {'==': operator.eq, '!=': operator.ne, '<': operator.lt, '<=': operator.le, '>': operator.gt,
            '>=': operator.ge, 'is': operator.is_, 'is not': operator.is_not}[op](v, val)


def dflt_value(d):
    if d[0] == 'lit':
        return d[1]
    return {'list': [], 'dict': {}, 'set': set(), 'tuple': ()}[d[0]]


class RefEncoder:
    """documented wire encoding of a value (C03)"""

    def __init__(self, infos):
        self.infos = infos        # class name -> cls type node

    def enc(self, v, ts, cfg):
        tv = type(v)
        if v is None or tv in (bool, int, float, str):
            return v
        if tv in (bytes, bytearray):
            return base64.b64encode(bytes(v)).decode()
        if isinstance(v, type):
            # a class object is a value like any other the encoding table does not name: written as its str(), whatever the
            # class is (a dataclass *type* is not a dataclass instance)
            return str(v)
        if isinstance(v, enum.Enum):
            return v.value
        if isinstance(v, uuid.UUID):
            return v.hex
        if isinstance(v, (decimal.Decimal, pathlib.PurePath)):
            return str(v)
        if isinstance(v, dt.datetime):
            if ts:
                return round(v.timestamp())
            return _z(v.isoformat())
        if isinstance(v, dt.date):
            if ts:
                return round(dt.datetime.combine(v, dt.time.min).timestamp())
            return v.isoformat()
        if isinstance(v, dt.time):
            return _z(v.isoformat())
        if isinstance(v, dt.timedelta):
            return str(v)
        if dataclasses.is_dataclass(v):
            return self.enc_inst(v, cfg, None, None, top=False)
        if isinstance(v, tuple) and hasattr(v, '_fields'):
            return tv(*[self.enc(x, ts, cfg) for x in v])
        if tv is tuple:
            return tuple(self.enc(x, ts, cfg) for x in v)
        if tv is list:
            return [self.enc(x, ts, cfg) for x in v]
        if tv in (set, frozenset, collections.deque):
            return [self.enc(x, ts, cfg) for x in v]
        if tv is collections.defaultdict:
            return {self.enc(k, ts, cfg): self.enc(x, ts, cfg) for k, x in v.items()}
        if isinstance(v, dict):
            return tv((self.enc(k, ts, cfg), self.enc(x, ts, cfg)) for k, x in v.items())
        raise TypeError(f'ref_encode: unsupported {tv}')

    def enc_inst(self, x, cfg, exclude, skip_defaults, top):
        node = self.infos[type(x).__name__]
        info = node['info']
        from harness.model import own_meta
        own = own_meta(info)
        if top:
            eff = effective_meta(own, None)
            cfg = root_config(own)
        else:
            eff = effective_meta(own, cfg)
        # a subclass may carry `global_meta`: the settings of a process-wide (module-level) Meta - the defaults of every class
        # that neither sets them itself nor receives them from the main class
        for k, gv in (getattr(self, 'global_meta', None) or {}).items():
            if k in MERGEABLE and gv is not None and k not in eff:
                eff[k] = gv
        ts = eff.get('marshal_date_time_as') == 'TIMESTAMP'
        # a subclass may carry `key_funcs` (same table shape) that also covers non-canonical field names (C03)
        keyf = getattr(self, 'key_funcs', KEY_FUNCS)[eff.get('key_transform_with_dump') or 'CAMEL']
        sd_on = skip_defaults if skip_defaults is not None else bool(eff.get('skip_defaults') or eff.get('skip_defaults_if'))
        out = {}
        for f in info['fields']:
            name = f['name']
            v = getattr(x, name)
            if exclude is not None and name in exclude:
                continue
            if f.get('catch_all'):
                if f.get('dflt') is not None and v == dflt_value(f['dflt']):
                    continue
                for k, xv in v.items():
                    out[k] = self.enc(xv, ts, cfg)
                continue
            if f.get('dump_skip'):
                continue
            if sd_on and f.get('dflt') is not None:
                if eff.get('skip_defaults_if') is not None:
                    if eval_cond(eff['skip_defaults_if'], v):
                        continue
                elif v == dflt_value(f['dflt']):
                    continue
            c = f.get('skip_if') if f.get('skip_if') is not None else eff.get('skip_if')
            if c is not None and eval_cond(c, v):
                continue
            key = (f['load_keys'][0] if f.get('dump_all') and f.get('load_keys') else keyf(name))
            out[key] = self.enc(v, ts, cfg)
        if eff.get('tag') is not None:
            out[eff.get('tag_key') or '__tag__'] = eff['tag']
        return out


def _z(s):
    # documented: a *trailing* +00:00 is written as Z
    return s[:-6] + 'Z' if s.endswith('+00:00') else s


def same_typed(a, b):
    """a == b and identical concrete types, recursively"""
    if type(a) is not type(b):
        return False
    if isinstance(a, float):
        return a == b or (math.isnan(a) and math.isnan(b))
    if isinstance(a, decimal.Decimal):
        return str(a) == str(b)
    if isinstance(a, dict):
        if len(a) != len(b):
            return False
        if isinstance(a, collections.OrderedDict) and list(a) != list(b):
            return False
        for k in a:
            if k not in b:
                return False
            kb = next(kk for kk in b if kk == k)
            if type(k) is not type(kb) or not same_typed(a[k], b[k]):
                return False
        return True
    if isinstance(a, (list, tuple, collections.deque)):
        return len(a) == len(b) and all(same_typed(x, y) for x, y in zip(a, b))
    if isinstance(a, (set, frozenset)):
        if a != b:
            return False
        return all(any(same_typed(x, y) for y in b) for x in a)
    if dataclasses.is_dataclass(a) and not isinstance(a, type):
        for f in dataclasses.fields(a):
            if hasattr(a, f.name) != hasattr(b, f.name):
                return False
            if hasattr(a, f.name) and not same_typed(getattr(a, f.name), getattr(b, f.name)):
                return False
        return True
    return a == b


def mutable_ids(v, acc=None, seen=None):
    """ids of every mutable container reachable from v"""
    if acc is None:
        acc, seen = set(), set()
    if id(v) in seen:
        return acc
    seen.add(id(v))
    if isinstance(v, (list, dict, set, bytearray, collections.deque)):
        acc.add(id(v))
    if isinstance(v, dict):
        for k, x in v.items():
            mutable_ids(k, acc, seen)
            mutable_ids(x, acc, seen)
    elif isinstance(v, (list, tuple, set, frozenset, collections.deque)):
        for x in v:
            mutable_ids(x, acc, seen)
    elif dataclasses.is_dataclass(v) and not isinstance(v, type):
        acc.add(id(v))
        for f in dataclasses.fields(v):
            if hasattr(v, f.name):
                mutable_ids(getattr(v, f.name), acc, seen)
    return acc


def jsonify(v):
    """what json.loads(json.dumps(v)) gives for a JSON-safe structure"""
    return json.loads(json.dumps(v))


def first_diff(a, b, path='x'):
    """where two values stop being same_typed (for failure messages)"""
    if type(a) is not type(b):
        return f'{path}: {type(a).__name__} {a!r:.80} vs {type(b).__name__} {b!r:.80}'
    if dataclasses.is_dataclass(a) and not isinstance(a, type):
        for f in dataclasses.fields(a):
            if hasattr(a, f.name) and hasattr(b, f.name) and not same_typed(getattr(a, f.name), getattr(b, f.name)):
                return first_diff(getattr(a, f.name), getattr(b, f.name), f'{path}.{f.name}')
    if isinstance(a, dict):
        for k in a:
            if k not in b:
                return f'{path}: key {k!r} missing'
            if not same_typed(a[k], b[k]):
                return first_diff(a[k], b[k], f'{path}[{k!r}]')
        return f'{path}: keys {list(a)!r:.100} vs {list(b)!r:.100}'
    if isinstance(a, (list, tuple, collections.deque)):
        if len(a) != len(b):
            return f'{path}: len {len(a)} vs {len(b)}'
        for i, (x, y) in enumerate(zip(a, b)):
            if not same_typed(x, y):
                return first_diff(x, y, f'{path}[{i}]')
    return f'{path}: {a!r:.100} vs {b!r:.100}'


def diff_steps(a, b):
    """structured path to the first position where a and b stop being same_typed"""
    if type(a) is not type(b):
        return []
    if dataclasses.is_dataclass(a) and not isinstance(a, type):
        for f in dataclasses.fields(a):
            if hasattr(a, f.name) and hasattr(b, f.name) and not same_typed(getattr(a, f.name), getattr(b, f.name)):
                return [('field', f.name)] + diff_steps(getattr(a, f.name), getattr(b, f.name))
        return []
    if isinstance(a, dict):
        for k in a:
            if k in b and not same_typed(a[k], b[k]):
                return [('key', k)] + diff_steps(a[k], b[k])
        return []
    if isinstance(a, (list, tuple, collections.deque)):
        if len(a) == len(b):
            for i, (x, y) in enumerate(zip(a, b)):
                if not same_typed(x, y):
                    return [('index', i)] + diff_steps(x, y)
    return []


def union_on_path(ty, steps, value):
    """the innermost Union node met when following `steps` from type `ty` (value = the original instance side)"""
    last_union = None
    t, v = ty, value
    enclosing = {}
    for step in steps + [None]:
        # unwrap optional / union at this level ('ref': back to the enclosing class model of that name)
        while t is not None and t['k'] in ('optional', 'union', 'ref'):
            if t['k'] == 'ref':
                t = enclosing.get(t['name'])
            elif t['k'] == 'union':
                last_union = t
                cand = [m for m in t['a'] if _shape_ok(v, m)]
                t = cand[0] if len(cand) == 1 else None
            else:
                t = t['a'][0]
        if step is None or t is None:
            break
        kind, arg = step
        k = t['k']
        if k == 'cls':
            enclosing[t['info']['name']] = t
        try:
            if kind == 'field' and k == 'cls':
                t = dict((n, ft) for n, ft in t['ftys'])[arg]
                v = getattr(v, arg)
            elif kind == 'key' and k in ('dict', 'defaultdict', 'ordereddict'):
                t = t['a'][1]
                v = v[arg]
            elif kind == 'key' and k == 'typeddict':
                t = {n: ft for n, ft, _r in t['fields']}[arg]
                v = v[arg]
            elif kind == 'index' and k in ('list', 'deque', 'vtuple', 'set', 'frozenset'):
                t = t['a'][0]
                v = list(v)[arg]
            elif kind == 'index' and k == 'tuple':
                t = t['a'][arg]
                v = v[arg]
            elif kind == 'index' and k == 'namedtuple':
                t = t['fields'][arg][1]
                v = v[arg]
            else:
                break
        except Exception:
            break
    return last_union


def _shape_ok(v, m):
    k = m['k']
    if k == 'none':
        return v is None
    if k in ('dict', 'defaultdict', 'ordereddict', 'typeddict'):
        return isinstance(v, dict)
    if k in ('list', 'set', 'frozenset', 'deque', 'vtuple', 'tuple', 'namedtuple'):
        return isinstance(v, (list, set, frozenset, tuple, collections.deque))
    if k == 'cls':
        return dataclasses.is_dataclass(v) and type(v).__name__ == m['info']['name']
    simple = {'str': str, 'int': int, 'float': float, 'bool': bool}
    if k in simple:
        return type(v) is simple[k]
    return not isinstance(v, (dict, list, set, frozenset, tuple, collections.deque, str, int, float, bool)) and v is not None
