"""DIMENSION "the Meta of a class arrives in two or more bindings" (shared by C13 and C02).

The library keeps one Meta per class and merges every further `bind_to` into it: the inner `Meta` class, the `DumpMeta` that
`JSONPyWizard` binds before the inner Meta, `LoadMeta(..).bind_to(cls)` / `DumpMeta(..).bind_to(cls)` after the class statement, a
`BaseJSONWizardMeta` subclass bound by hand.  Documented meaning (docs "Meta" page; `LoadMeta` / `DumpMeta` docstrings): the settings of
all bindings hold together, and where two bindings give the same setting the later one wins — whichever binding carries `tag`,
`recursive`, `tag_key`, a key case, ...

`distribute` takes a class `info` of the class model (harness/model.py) whose `meta` holds the settings the class is meant to end up with and
spreads them over 2-3 binding steps (`info['meta_steps']`, rendered by model.cls_src), in random order, optionally
  * turning a JSONWizard class into a JSONPyWizard one (implicit DumpMeta first, inner Meta second),
  * giving earlier bindings *stale* values of settings that a later binding overrides,
  * padding bindings with settings that spell out a default (so that every step is a real binding).
`info['meta']` becomes the merged result (later wins), which the Lean class model and the oracles read.
"""
from __future__ import annotations

LOADISH = {'key_transform_with_load', 'raise_on_unknown_json_key', 'v1', 'v1_key_case', 'v1_on_unknown_key',
           'v1_unsafe_parse_dataclass_in_union', 'v1_field_to_alias'}
DUMPISH = {'key_transform_with_dump', 'marshal_date_time_as', 'skip_defaults', 'skip_if', 'skip_defaults_if'}

# settings that spell out the default of the engine (they create a Meta config without changing any documented behaviour)
NEUTRAL_V0 = [{'key_transform_with_load': 'SNAKE'}, {'key_transform_with_dump': 'CAMEL'}, {'skip_defaults': False},
              {'marshal_date_time_as': 'ISO_FORMAT'}, {'raise_on_unknown_json_key': False}, {'recursive': True}]
NEUTRAL_V1 = [{'v1': True}, {'key_transform_with_dump': 'NONE'}, {'skip_defaults': False}, {'v1_unsafe_parse_dataclass_in_union': False},
              {'recursive': True}]


def _via(rng, settings):
    ks = set(settings)
    if ks & LOADISH and ks & DUMPISH:
        return 'base'
    if ks & LOADISH:
        return rng.choice(['load', 'load', 'base'])
    if ks & DUMPISH:
        return rng.choice(['dump', 'dump', 'base'])
    return rng.choice(['load', 'dump', 'base'])


def merged(steps):
    out = {}
    for st in steps:
        out.update(st['meta'])
    return out


def distribute(rng, info, neutral, *, stale=None, avoid=(), late=('tag', 'recursive'), py_ok=True, p_late=0.75, together=None):
    """-> label of the binding history chosen (for coverage counters).
    `neutral`: candidate default-spelling settings; those whose key is in `avoid` (settings the enclosing root gives another value) or that
    contradict the final settings are not used.  `stale`: {setting: stale value} that an EARLIER binding may give when a later one
    holds the final value.  `late`: settings that go into the LAST binding with probability `p_late`.
    `together`: {setting: companion settings} — every binding that carries `setting` spells the companions as well.  Used for
    v1_key_case -> v1=True: given apart they are a genuine defect of the unchanged library, kept out for now
    (/tmp/ag/Q/findings/v1-key-case-bound-apart-from-v1.py: the key case lands on the loader class chosen by that binding's own v1 flag)."""
    final = {k: v for k, v in (info.get('meta') or {}).items() if v is not None}
    wizard = info.get('wizard', True)
    assert wizard in (True, False, 'file'), wizard
    label = []
    if wizard is True and py_ok and rng.random() < 0.4:
        info['wizard'] = wizard = 'py'        # JSONPyWizard: DumpMeta(key_transform='NONE') is bound first, the inner Meta second
        label.append('py')
    n = rng.choice([1, 2]) if wizard == 'py' else rng.choice([2, 2, 3])
    slots = [dict() for _ in range(n)]
    for k, v in final.items():
        j = n - 1 if (k in late and rng.random() < p_late) else rng.randrange(n)
        slots[j][k] = v
        if stale and k in stale and j > 0 and rng.random() < 0.5:
            slots[rng.randrange(j)][k] = stale[k]
            label.append('stale-' + k)
    usable = [s for s in neutral if not (set(s) & set(avoid)) and all(final.get(k, v) == v for k, v in s.items())]
    if wizard == 'py':
        usable = [s for s in usable if 'key_transform_with_dump' not in s]
    for sl in slots:
        if usable and (not sl or rng.random() < 0.3):
            sl.update((k, v) for k, v in rng.choice(usable).items() if k not in sl)
    for sl in slots:
        for k, comp in (together or {}).items():
            if k in sl:
                sl.update(comp)
    steps = []
    for j, sl in enumerate(slots):
        if j == 0 and wizard in (True, 'py', 'file') and (wizard == 'py' or rng.random() < 0.5):
            via = 'inner'
        else:
            via = _via(rng, sl)
        steps.append({'via': via, 'meta': sl})
    info['meta_steps'] = steps
    m = merged(steps)
    assert all(m.get(k) == v for k, v in final.items()), (final, steps)
    info['meta'] = m or None
    late_keys = [k for k in final if k in late and any(k in st['meta'] for st in steps[1:])]
    if wizard == 'py':
        late_keys = [k for k in final if k in late]       # every binding of a JSONPyWizard class follows the implicit DumpMeta
    label.append('+'.join(st['via'] for st in steps))
    if late_keys:
        label.append('late-' + '+'.join(sorted(late_keys)))
    return ' '.join(label)
