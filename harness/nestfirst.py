"""Helpers for histories in which nested classes are used on their own (as main classes) before the first use of the
class that contains them (C01, C03): the documented configuration each class of a tree is used with."""
from __future__ import annotations

from harness import model, ref


def class_nodes(ty):
    """class name -> cls type node, for `ty` itself and every dataclass below it"""
    infos = {}
    model._collect_infos(ty, infos)
    return infos


def effective_table(ty):
    """class name -> effective Meta when `ty` is used as the main class (documented cascade: own settings win, the other
    mergeable ones come from the main class unless it says recursive = False)"""
    infos = class_nodes(ty)
    own = model.own_meta(ty['info'])
    cfg = ref.root_config(own)
    return {n: (ref.effective_meta(own, None) if node is ty else ref.effective_meta(model.own_meta(node['info']), cfg))
            for n, node in infos.items()}


def cascades_below(node):
    """does `node`, used as a main class, bind its own Meta to dataclasses below it"""
    return len(class_nodes(node)) > 1 and ref.root_config(model.own_meta(node['info'])) is not None


def has_dataclass_union(node):
    """does one of the class's own fields dispatch on a tag (a Union with at least two non-None members, one of them a dataclass)"""
    def walk(t):
        k = t['k']
        if k == 'cls':
            return False
        if k == 'union':
            if any(m['k'] == 'cls' for m in t['a']):
                return True
        if k == 'namedtuple':
            return any(walk(ft) for _n, ft, _d in t['fields'])
        if k == 'typeddict':
            return any(walk(ft) for _n, ft, _r in t['fields'])
        return any(walk(x) for x in t.get('a', []))
    return any(walk(ft) for _n, ft in node['ftys'])
