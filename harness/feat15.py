"""C15 — feature models: class models outside the type grammar of harness/gen.py, composed at random from *field
features* whose generated code splices user-chosen names / strings at places the grammar does not reach:

  user-defined scalar types (Enum, subclasses of str / int / float / Decimal / date / datetime / time) as members of a
  real Union, bare, in containers and under Pattern annotations (several types of one base sharing the pattern strings);
  several load aliases of one field; TypedDicts with arbitrary text keys, required and optional; a tagged root / tagged
  Union members with a text tag key, catch-all fields and unknown-key policies; string operands of skip conditions and
  string defaults.

A model is a JSON-able *spec*; it is rendered twice — with benign names and with adversarial ones (`names`) — and the
two classes are driven through the same documents (keys / text values mapped through the naming).  Results are
canonicalised positionally (field i, type i, text i), so they must be EQUAL when spelling does not matter.
"""
from __future__ import annotations

import collections
import dataclasses
import datetime as dt
import decimal
import enum
import re
import sys
import types

from harness import model

BASES = {'str': '_b.str', 'int': '_b.int', 'float': '_b.float', 'decimal': '_dec.Decimal', 'date': '_dtm.date',
         'datetime': '_dtm.datetime', 'time': '_dtm.time'}
JSON_OF = {'enum': 'a', 'str': 'txt', 'int': 7, 'float': 2.5, 'decimal': '1.25'}
OTHERS = {'enum': ['int', 'float', 'bool', 'list'], 'str': ['int', 'float', 'bool', 'list'], 'int': ['str', 'list'],
          'float': ['str', 'list'], 'decimal': ['list', 'bool']}
OTHER_SRC = {'int': '_b.int', 'float': '_b.float', 'bool': '_b.bool', 'str': '_b.str', 'list': '_b.list[_b.int]'}
OTHER_VAL = {'int': 3, 'float': 1.5, 'bool': True, 'str': 's', 'list': [1, 2]}
PATTERNS = {'date': ['%d/%m/%Y', '%Y.%m.%d'], 'datetime': ['%d/%m/%Y %H:%M', '%Y%m%d %H-%M-%S'], 'time': ['%Hh%M', '%M:%H']}
SAMPLE = {'date': dt.date(2021, 12, 24), 'datetime': dt.datetime(2022, 1, 3, 10, 30, 0), 'time': dt.time(10, 30)}
PAT_CLS = {'date': 'DatePattern', 'datetime': 'DateTimePattern', 'time': 'TimePattern'}

# user-defined types whose instances are written as the OPERAND of a skip condition: subclasses of int / str (the values a
# condition is usually written with), with the repr() of the base, of enum, or one of their own
OP_KINDS = {'intenum': ('int', '_en.IntEnum'), 'strenum': ('str', '_en.StrEnum'), 'intflag': ('int', '_en.IntFlag'),
            'intsub': ('int', '_b.int'), 'strsub': ('str', '_b.str'), 'intrepr': ('int', '_b.int'), 'strrepr': ('str', '_b.str')}
OP_VALS = {'int': [1, 2], 'str': ['a', 'b']}          # [the operand / member A, another value / member B]

PRELUDE = model.PRELUDE + '\nimport dataclass_wizard.v1 as _v1\n'


def norm(s):
    return re.sub(r'[^0-9a-z]', '', s.lower())


# ----------------------------------------------------------------------------------------------- generation
def gen_spec(rng, engine):
    """a random feature model; every choice comes from `rng`"""
    types_, fields, texts = [], [], [0]

    def new_type(kind):
        types_.append({'kind': kind})
        return len(types_) - 1

    def new_text():
        texts[0] += 1
        return texts[0] - 1

    spec = {'engine': engine, 'types': types_, 'fields': fields, 'members': []}
    feats = rng.sample(['union_user', 'pattern', 'multi_alias', 'td', 'tagged', 'skip_str', 'bare_user', 'plain', 'skip_user'], rng.randint(2, 4))
    if rng.random() < 0.35:
        spec['root_tag'] = {'tag': new_text(), 'tag_key': new_text() if rng.random() < 0.8 else None}
        if 'tagged' in feats:
            feats.remove('tagged')            # one tag key per model
    if rng.random() < 0.4:
        spec['catch_all'] = True
    if rng.random() < 0.15:
        spec['unknown'] = 'RAISE'
    for ft in feats:
        if ft == 'union_user':
            for _ in range(rng.choice([1, 1, 2])):
                kind = rng.choice(['enum', 'enum', 'str', 'int', 'float', 'decimal'])
                t = new_type(kind)
                other = rng.choice(OTHERS[kind])
                fields.append({'feat': 'union_user', 't': t, 'other': other, 'first': rng.random() < 0.6, 'none': rng.random() < 0.3,
                               'wrap': rng.choice([None, None, 'list', 'dict']),
                               # the default engine matches Union members by the exact type of the JSON value: the user's type is
                               # mostly reached in v1
                               'pick': rng.choice(['user', 'user', 'other'] if engine == 'v1' else ['user', 'other', 'other'])})
        elif ft == 'bare_user':
            kind = rng.choice(['enum', 'str', 'int', 'float', 'decimal'])
            fields.append({'feat': 'bare_user', 't': new_type(kind), 'wrap': rng.choice([None, 'list', 'optional', 'dict'])})
        elif ft == 'pattern':
            base = rng.choice(['date', 'date', 'datetime', 'time'])
            pat = rng.choice(PATTERNS[base])
            n = rng.choice([1, 2, 2, 3])
            for j in range(n):
                # several distinct user types of one base, mostly under the SAME pattern strings; sometimes the builtin itself
                # (the default engine reads Pattern annotations on the builtin types only)
                t = None if rng.random() < 0.2 or engine != 'v1' else new_type(base)
                fields.append({'feat': 'pattern', 't': t, 'base': base, 'pat': pat if rng.random() < 0.8 else rng.choice(PATTERNS[base]),
                               'wrap': rng.choice([None, None, 'list', 'optional'])})
        elif ft == 'multi_alias':
            # one to three aliased fields of different types and values, declared through json_field / Annotated[.., json_key] /
            # the Meta table (default engine), Alias (v1)
            for _ in range(rng.choice([1, 2, 2, 3])):
                fields.append({'feat': 'multi_alias', 'keys': [new_text() for _ in range(rng.choice([1, 1, 2, 2, 3]))], 'use': rng.randrange(3),
                               'dflt': rng.random() < 0.4, 'ty': rng.choice(['int', 'int', 'str']),
                               'style': rng.choice(['field', 'field', 'annotated', 'meta'])})
        elif ft == 'td':
            keys = [[new_text(), rng.random() < 0.5, rng.choice(['int', 'str'])] for _ in range(rng.randint(1, 3))]
            fields.append({'feat': 'td', 'keys': keys, 'total_false': rng.random() < 0.4,
                           'present': [rng.random() < 0.8 for _ in keys]})
        elif ft == 'tagged':
            mem = []
            for _ in range(rng.choice([1, 2, 2])):
                mem.append({'tag': new_text(), 'catch_all': rng.random() < 0.5, 'unknown': rng.choice([None, None, None, 'RAISE'])})
            spec['members'] = mem
            spec['tag_key'] = new_text() if rng.random() < 0.75 else None
            fields.append({'feat': 'tagged', 'pick': rng.randrange(len(mem)), 'none': rng.random() < 0.3, 'extra': rng.random() < 0.5,
                           'wrap': rng.choice([None, None, 'list'])})
        elif ft == 'skip_str':
            for _ in range(rng.choice([1, 2])):
                fields.append({'feat': 'skip_str', 'x': new_text(), 'how': rng.choice(['field', 'field', 'skip_defaults', 'ne']),
                               'val': rng.choice(['same', 'same', 'other'])})
        elif ft == 'skip_user':
            # skip conditions whose operand is an instance of a user-defined int / str subclass (IntEnum / StrEnum / IntFlag
            # member, a subclass with or without a repr() of its own), on a field (skip_if_field / Annotated SkipIf) or for all
            # fields through the Meta (skip_if / skip_defaults_if)
            kind = rng.choice(sorted(OP_KINDS))
            t = new_type(kind)
            for _ in range(rng.choice([1, 1, 2])):
                how = rng.choice(['field', 'field', 'annotated', 'meta', 'meta_defaults'])
                if how in ('meta', 'meta_defaults') and ('meta_' + how) not in spec:
                    spec['meta_' + how] = {'t': t, 'op': rng.choice(['EQ', 'EQ', 'NE'])}
                    op = None
                else:
                    how = 'field' if how.startswith('meta') else how
                    op = rng.choice(['EQ', 'EQ', 'EQ', 'NE', 'LT', 'LE', 'GT', 'GE'])
                fields.append({'feat': 'skip_user', 't': t, 'how': how, 'op': op, 'val': rng.choice(['same', 'same', 'other']),
                               'user_ty': kind in ('intenum', 'strenum') and rng.random() < 0.3, 'dflt': rng.choice(['same', 'same', 'other'])})
        else:
            fields.append({'feat': 'plain', 'ty': rng.choice(['int', 'str', 'float', 'bool'])})
    rng.shuffle(fields)
    spec['ntexts'] = texts[0] + 1           # one spare text: an unknown key / another string value
    spec['extra_key'] = rng.random() < 0.4
    return spec


def benign_names(spec):
    nm = len(spec['members'])
    return {'root': 'RootModel', 'types': [f'UserType{i}' for i in range(len(spec['types']))],
            'fields': [f'fld_{i}_x' for i in range(len(spec['fields']))], 'members': [f'Member{i}' for i in range(nm)],
            'mfields': [f'mval_{i}_x' for i in range(nm)], 'mrest': [f'mrest_{i}_x' for i in range(nm)], 'rest': 'rest_items_x',
            'tds': [f'TdType{i}' for i in range(len(spec['fields']))],
            'text': [f'key{i}' for i in range(spec['ntexts'])]}


# ----------------------------------------------------------------------------------------------- rendering
def _wrap_def(bind, pyname, body_lines, uid):
    """the definition gets the adversarial __name__; its __qualname__ stays unique (`uid`): the library keys state by it"""
    body = '\n'.join('    ' + ln for ln in body_lines)
    return f'def _mk{uid}{bind}():\n{body}\n    return {pyname}\n{bind} = _mk{uid}{bind}()\n'


def _wrap_ann(src, wrap):
    if wrap == 'list':
        return f'_b.list[{src}]'
    if wrap == 'dict':
        return f'_b.dict[_b.str, {src}]'
    if wrap == 'optional':
        return f'_t.Optional[{src}]'
    return src


def _wrap_val(v, wrap):
    if wrap == 'list':
        return [v, v]
    if wrap == 'dict':
        return {'k1': v}
    return v


def render(spec, names, uid=''):
    """-> module source; binds _T<i> (user types), _TD<i>, _M<i> (tagged members), _Root"""
    v1 = spec['engine'] == 'v1'
    X = names['text']
    out = [PRELUDE]
    for i, t in enumerate(spec['types']):
        pn = names['types'][i]
        if t['kind'] == 'enum':
            out.append(_wrap_def(f'_T{i}', pn, [f'class {pn}(_en.Enum):', "    A = 'a'", "    B = 'b'"], uid))
        elif t['kind'] in OP_KINDS:
            base, parent = OP_KINDS[t['kind']]
            va, vb = OP_VALS[base]
            if parent.startswith('_en.'):
                body = [f'    A = {va!r}', f'    B = {vb!r}']
            elif t['kind'].endswith('repr'):
                body = ['    def __repr__(self):', f"        return {pn!r} + '(' + _b.{base}.__repr__(self) + ')'"]
            else:
                body = ['    pass']
            out.append(_wrap_def(f'_T{i}', pn, [f'class {pn}({parent}):'] + body, uid))
        else:
            out.append(_wrap_def(f'_T{i}', pn, [f'class {pn}({BASES[t["kind"]]}):', '    pass'], uid))

    def operand(t):
        """the operand of a skip condition: an instance of user type t — or, under the plain spelling of the operands
        (names['plain_operands']), the equal value of the builtin base type"""
        base = OP_KINDS[spec['types'][t]['kind']][0]
        va = OP_VALS[base][0]
        if names.get('plain_operands'):
            return repr(va)
        return f'_T{t}.A' if OP_KINDS[spec['types'][t]['kind']][1].startswith('_en.') else f'_T{t}({va!r})'

    def meta_lines(tag=None, tag_key=None, unknown=None, root=False):
        ls = []
        if v1 and root:
            ls += ['v1 = True', "v1_key_case = 'AUTO'"]
        if root:
            tab = {X[k]: names['fields'][i] for i, f in enumerate(spec['fields'])
                   if f['feat'] == 'multi_alias' and f.get('style') == 'meta' and not v1 for k in f['keys']}
            if tab:
                ls.append(f'json_key_to_field = {tab!r}')
            for how, attr in (('meta', 'skip_if'), ('meta_defaults', 'skip_defaults_if')):
                mc = spec.get('meta_' + how)
                if mc:
                    ls.append(f'{attr} = _dw.{mc["op"]}({operand(mc["t"])})')
        if tag is not None:
            ls.append(f'tag = {X[tag]!r}')
        if tag_key is not None:
            ls.append(f'tag_key = {X[tag_key]!r}')
        if unknown:
            ls.append("v1_on_unknown_key = 'RAISE'" if v1 else 'raise_on_unknown_json_key = True')
        if not ls:
            return []
        return ['    class _(_dw.JSONWizard.Meta):'] + ['        ' + l for l in ls]

    for j, m in enumerate(spec['members']):
        pn = names['members'][j]
        body = ['@_dc.dataclass', f'class {pn}(_dw.JSONWizard):'] + meta_lines(tag=m['tag'], unknown=m['unknown'])
        body.append(f'    {names["mfields"][j]}: _b.int = 0')
        if m['catch_all']:
            body.append(f'    {names["mrest"][j]}: _dw.CatchAll = None')
        out.append(_wrap_def(f'_M{j}', pn, body, uid))
    lines, later = [], []
    for i, f in enumerate(spec['fields']):
        fn = names['fields'][i]
        ft = f['feat']
        if ft == 'union_user':
            mem = [f'_T{f["t"]}', OTHER_SRC[f['other']]]
            if not f['first']:
                mem.reverse()
            if f['none']:
                mem.append('None')
            lines.append(f'    {fn}: {_wrap_ann("_t.Union[" + ", ".join(mem) + "]", f["wrap"])}')
        elif ft == 'bare_user':
            lines.append(f'    {fn}: {_wrap_ann("_T%d" % f["t"], f["wrap"])}')
        elif ft == 'pattern':
            ns = '_v1' if v1 else '_dw'
            if f['t'] is None:
                ann = f'{ns}.{PAT_CLS[f["base"]]}[{f["pat"]!r}]'
            else:
                ann = f'_t.Annotated[_T{f["t"]}, {ns}.Pattern({f["pat"]!r})]'
            lines.append(f'    {fn}: {_wrap_ann(ann, f["wrap"])}')
        elif ft == 'multi_alias':
            keys = tuple(X[k] for k in f['keys'])
            ty = OTHER_SRC[f.get('ty', 'int')]
            dv = repr({'int': 1, 'str': 'd'}[f.get('ty', 'int')])
            d = f', default={dv}' if f['dflt'] else ''
            style = f.get('style', 'field')
            if v1:
                line = f'    {fn}: {ty} = ' + (f'_v1.Alias(load={keys!r}{d})' if len(keys) > 1 else f'_v1.Alias(load={keys[0]!r}{d})')
            elif style == 'annotated':
                line = f'    {fn}: _t.Annotated[{ty}, _dw.json_key({", ".join(repr(k) for k in keys)})]' + (f' = {dv}' if f['dflt'] else '')
            elif style == 'meta':
                line = f'    {fn}: {ty}' + (f' = {dv}' if f['dflt'] else '')          # keys: Meta.json_key_to_field
            else:
                line = f'    {fn}: {ty} = _dw.json_field({keys if len(keys) > 1 else keys[0]!r}{d})'
            (later if f['dflt'] else lines).append(line)
        elif ft == 'td':
            items = []
            for k, req, ty in f['keys']:
                inner = OTHER_SRC[ty]
                items.append(f'{X[k]!r}: ' + (inner if req or f['total_false'] else f'_te.NotRequired[{inner}]'))
            tot = ', total=False' if f['total_false'] else ''
            out.append(f'_TD{i} = _t.TypedDict({names["tds"][i]!r}, {{{", ".join(items)}}}{tot})\n')
            lines.append(f'    {fn}: _TD{i}')
        elif ft == 'tagged':
            mem = [f'_M{j}' for j in range(len(spec['members']))]
            if f['none'] or len(mem) == 1:
                mem.append('None')
            lines.append(f'    {fn}: {_wrap_ann("_t.Union[" + ", ".join(mem) + "]", f["wrap"])}')
        elif ft == 'skip_str':
            x = X[f['x']]
            if f['how'] == 'field':
                later.append(f'    {fn}: _b.str = _dw.skip_if_field(_dw.EQ({x!r}), default={x!r})')
            elif f['how'] == 'ne':
                later.append(f'    {fn}: _b.str = _dw.skip_if_field(_dw.NE({x!r}), default={x!r})')
            else:
                later.append(f'    {fn}: _b.str = {x!r}')
        elif ft == 'skip_user':
            base = OP_KINDS[spec['types'][f['t']]['kind']][0]
            dv = OP_VALS[base][0 if f['dflt'] == 'same' else 1]
            ty, dflt = f'_b.{base}', repr(dv)
            if f['user_ty']:
                ty, dflt = f'_T{f["t"]}', f'_T{f["t"]}({dv!r})'
            if f['op'] is None:
                later.append(f'    {fn}: {ty} = {dflt}')              # the condition is in the Meta
            elif f['how'] == 'annotated':
                later.append(f'    {fn}: _t.Annotated[{ty}, _dw.SkipIf(_dw.{f["op"]}({operand(f["t"])}))] = {dflt}')
            else:
                later.append(f'    {fn}: {ty} = _dw.skip_if_field(_dw.{f["op"]}({operand(f["t"])}), default={dflt})')
        else:
            lines.append(f'    {fn}: {OTHER_SRC[f["ty"]]}')
    if spec.get('catch_all'):
        later.append(f'    {names["rest"]}: _dw.CatchAll = None')
    rt = spec.get('root_tag') or {}
    head = ['@_dc.dataclass', f'class {names["root"]}(_dw.JSONWizard):']
    ml = meta_lines(tag=rt.get('tag'), tag_key=rt.get('tag_key') if rt else spec.get('tag_key'), unknown=spec.get('unknown'), root=True)
    if any(f['feat'] == 'skip_str' and f['how'] == 'skip_defaults' for f in spec['fields']):
        ml = (ml or ['    class _(_dw.JSONWizard.Meta):']) + ['        skip_defaults = True']
    body = head + ml + lines + later
    if not lines and not later:
        body.append('    pass')
    out.append(_wrap_def('_Root', names['root'], body, uid))
    return '\n'.join(out)


def document(spec, names):
    """the load document of the model under this naming"""
    X = names['text']
    spare = X[spec['ntexts'] - 1]
    doc = {}
    rt = spec.get('root_tag')
    if rt:
        doc[X[rt['tag_key']] if rt['tag_key'] is not None else '__tag__'] = X[rt['tag']]
    for i, f in enumerate(spec['fields']):
        fn = names['fields'][i]
        ft = f['feat']
        if ft == 'union_user':
            kind = spec['types'][f['t']]['kind']
            doc[fn] = _wrap_val(JSON_OF[kind] if f['pick'] == 'user' else OTHER_VAL[f['other']], f['wrap'])
        elif ft == 'bare_user':
            doc[fn] = _wrap_val(JSON_OF[spec['types'][f['t']]['kind']], f['wrap'])
        elif ft == 'pattern':
            doc[fn] = _wrap_val(SAMPLE[f['base']].strftime(f['pat']), f['wrap'])
        elif ft == 'multi_alias':
            val = 50 + i if f.get('ty', 'int') == 'int' else 'val%d' % i        # a value per field
            if f['use'] < len(f['keys']):
                doc[X[f['keys'][f['use']]]] = val
            elif not f['dflt']:
                doc[X[f['keys'][0]]] = val
        elif ft == 'td':
            doc[fn] = {X[k]: OTHER_VAL[ty] for (k, req, ty), p in zip(f['keys'], f['present']) if p or req}
        elif ft == 'tagged':
            j = f['pick']
            d = {(X[spec['tag_key']] if spec.get('tag_key') is not None else '__tag__'): X[spec['members'][j]['tag']],
                 names['mfields'][j]: 4}
            if f['extra']:
                d[spare] = 'n'
            doc[fn] = _wrap_val(d, f['wrap'])
        elif ft == 'skip_str':
            doc[fn] = X[f['x']] if f['val'] == 'same' else spare
        elif ft == 'skip_user':
            doc[fn] = OP_VALS[OP_KINDS[spec['types'][f['t']]['kind']][0]][0 if f['val'] == 'same' else 1]
        else:
            doc[fn] = OTHER_VAL[f['ty']]
    if spec.get('extra_key'):
        doc[spare] = 'note'
    return doc


# ----------------------------------------------------------------------------------------------- building / observing
class Side:
    def __init__(self, spec, names, uid=None):
        self.spec, self.names = spec, names
        self.modname = model.fresh('dwv_feat_')
        # `uid` given: the source (and with it every __qualname__) of an earlier Side, executed once more in a new module
        self.uid = uid if uid is not None else self.modname[len('dwv_feat'):]
        self.source = render(spec, names, self.uid)
        self.mod = types.ModuleType(self.modname)
        sys.modules[self.modname] = self.mod
        try:
            exec(compile(self.source, f'<{self.modname}>', 'exec', dont_inherit=True), self.mod.__dict__)
        except Exception:
            self.close()
            raise
        g = self.mod.__dict__
        self.root = g['_Root']
        self.type_idx = {id(g[f'_T{i}']): i for i in range(len(spec['types']))}
        self.cls_idx = {id(g['_Root']): 'root'}
        for j in range(len(spec['members'])):
            self.cls_idx[id(g[f'_M{j}'])] = j
        self.text_idx = {}
        for i, s in enumerate(names['text']):
            # (a load alias spelled like a field of the model is a key of documents only: in results that text is the field)
            if s not in names['fields']:
                self.text_idx.setdefault(s, i)
        self.field_idx = {}
        for i, n in enumerate(names['fields']):
            self.field_idx[norm(n)] = ['F', i]
        for j in range(len(spec['members'])):
            self.field_idx[norm(names['mfields'][j])] = ['MF', j]
            self.field_idx[norm(names['mrest'][j])] = ['MR', j]
        self.field_idx[norm(names['rest'])] = ['R']

    def close(self):
        sys.modules.pop(self.modname, None)

    def twin(self):
        """the same source executed a second time: identically spelled, distinct classes"""
        t = Side(self.spec, self.names, uid=self.uid)
        assert t.source == self.source and t.root is not self.root
        return t

    def key(self, k):
        if isinstance(k, str):
            if k == '__tag__':
                return ['default-tag-key']          # not the field called `tag`
            if k in self.text_idx:
                return ['X', self.text_idx[k]]
            if norm(k) in self.field_idx:
                return self.field_idx[norm(k)]
        return ['key', repr(k)]

    def canon(self, v):
        """positional canonical form of a loaded value"""
        t = type(v)
        if id(t) in self.cls_idx:
            return ['inst', self.cls_idx[id(t)], [self.canon(getattr(v, f.name, '<unset>')) for f in dataclasses.fields(v)]]
        if id(t) in self.type_idx:
            i = self.type_idx[id(t)]
            kind = self.spec['types'][i]['kind']
            if kind == 'enum' or OP_KINDS.get(kind, ('', ''))[1].startswith('_en.'):
                return ['user', i, v.name]
            if kind in OP_KINDS:
                return ['user', i, repr({'int': int, 'str': str}[OP_KINDS[kind][0]](v))]
            if kind in ('date', 'datetime', 'time'):
                return ['user', i, v.isoformat()]
            base = {'str': str, 'int': int, 'float': float, 'decimal': decimal.Decimal}[kind]
            return ['user', i, repr(base(v))]
        if dataclasses.is_dataclass(v) or isinstance(v, enum.Enum):
            return ['foreign', repr(v)[:80]]
        if isinstance(v, dict):
            # as a set of pairs: the order of a loaded TypedDict follows the iteration order of a frozenset of its keys
            return ['dict', sorted(([self.key(k), self.canon(x)] for k, x in v.items()), key=repr)]
        if isinstance(v, (list, tuple, collections.deque)):
            return [t.__name__, [self.canon(x) for x in v]]
        if isinstance(v, str) and v in self.text_idx:
            return ['X', self.text_idx[v]]
        # a value of the base type where the user's type was declared shows as such
        return [t.__name__, repr(v)]

    def canon_dump(self, d):
        if id(type(d)) in self.type_idx:
            return self.canon(d)
        if isinstance(d, dict):
            return ['dict', sorted(([self.key(k), self.canon_dump(x)] for k, x in d.items()), key=repr)]
        if isinstance(d, (list, tuple)):
            return ['seq', [self.canon_dump(x) for x in d]]
        if isinstance(d, str) and d in self.text_idx:
            return ['X', self.text_idx[d]]
        return [type(d).__name__, repr(d)]


def observe(side: Side, doc):
    """-> [load outcome, dump outcome]"""
    import copy
    from dataclass_wizard import fromdict, asdict
    from dataclass_wizard.errors import ParseError, MissingFields, MissingData, UnknownKeysError, JSONWizardError
    try:
        x = fromdict(side.root, copy.deepcopy(doc))
    except Exception as e:      # noqa
        if isinstance(e, MissingFields):
            return [['err', 'MissingFields', len(e.missing_fields)], None]
        for t in (MissingData, ParseError, UnknownKeysError, JSONWizardError):
            if isinstance(e, t):
                return [['err', t.__name__ if t is not JSONWizardError else type(e).__name__], None]
        return [['err', 'raw:' + type(e).__name__], None]
    lo = ['ok', side.canon(x)]
    try:
        do = ['ok', side.canon_dump(asdict(x))]
    except Exception as e:      # noqa
        do = ['err', type(e).__name__]
    return [lo, do]
