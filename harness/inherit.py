"""Families of dataclasses related by inheritance, as class models (shared by the property files).

A *family* is a base class model and 1-3 class models derived from it (siblings; chains where the Meta rules of the library
allow it), every derived class adding fields of its own.  Each class of a family is a class in its own right: whatever was done
with its base class, a sibling or a subclass before, loading through class K is about K's fields and gives a K.  The library keeps
per-class state in mappings keyed by the class *and* in attributes saved on the class (which a subclass inherits), so the order in
which the classes of a family are first used is part of the input.

`model.cls_src` renders `info['inherits'] = {'base': <class model>, 'n': k}`: the class derives from that class, `fields` /
`ftys` list ALL fields (what an instance has and what the driver's flat class model sees), the first k are the inherited ones.

Meta rules respected here (DESIGN 9.5, harness/props/c02.py inherit_case):
  * style 'wizard': Base(JSONWizard) declares the inner Meta (if any); derived classes declare none and take the Meta of their
    *immediate* base class — so with a Meta only siblings are generated (a grandchild does not take the grandparent's Meta);
  * style 'plain': plain dataclasses, each class bound on its own (LoadMeta / hand-made Meta) with the same Meta.
"""
from __future__ import annotations

from harness import gen, model
from harness.model import T


def _steps(rng, meta):
    return [{'via': rng.choice(['base', 'load']), 'meta': dict(meta)}]


def derive(rng, parent, own, style, meta, name=None):
    """the class model of a class derived from `parent` adding the fields of the class model `own` (renamed on clashes; given a
    default when a field of the parent has one — the dataclass rule; kw_only fields are exempt from it)"""
    used = {f['name'] for f in parent['info']['fields']}
    pf = [dict(f) for f in parent['info']['fields']]
    need_dflt = any(f.get('dflt') is not None and f.get('init', True) and not f.get('kw_only') for f in pf)
    ofields, oftys = [], []
    for f, (_n, ft) in zip(own['info']['fields'], own['ftys']):
        f = dict(f)
        if f['name'] in used or f['name'].lower() in {u.lower() for u in used}:
            f['name'] = gen.field_name(rng, used)
        used.add(f['name'])
        if need_dflt and f.get('dflt') is None and f.get('init', True) and not f.get('kw_only'):
            d = gen.simple_default_for(rng, ft)
            if d is None:
                ft, d = (ft if ft['k'] == 'optional' else T('optional', ft)), ['lit', None]
            f['dflt'], f['factory'] = d, d[0] != 'lit'
        ofields.append(f)
        oftys.append([f['name'], ft])
    # own fields: required ones first (the generators sort per class; a default added above keeps the order valid)
    order = sorted(range(len(ofields)), key=lambda ix: (ofields[ix].get('dflt') is not None or not ofields[ix].get('init', True)))
    ofields, oftys = [ofields[ix] for ix in order], [oftys[ix] for ix in order]
    info = {'name': name or model.fresh('D'), 'fields': pf + ofields, 'wizard': parent['info']['wizard'],
            'meta': dict(meta) if meta is not None else None, 'inherits': {'base': parent, 'n': len(pf)}}
    if style == 'wizard':
        info['meta_steps'] = []
    elif meta:
        info['meta_steps'] = _steps(rng, meta)
    return {'k': 'cls', 'info': info, 'ftys': [list(p) for p in parent['ftys']] + oftys}


def family(rng, mk_cls, meta, style=None, fresh=None, max_derived=3):
    """(chain, style): chain[0] the base class model made by mk_cls(), chain[1:] derived from a member before them.
    `meta`: the Meta every class of the family is under (None / {}: none)."""
    fresh = fresh or model.fresh
    style = style or rng.choice(['wizard', 'plain'])
    base = mk_cls()
    base['info']['wizard'] = True if style == 'wizard' else False
    base['info']['meta'] = dict(meta) if meta else None
    base['info'].pop('meta_steps', None)
    if style == 'plain' and meta:
        base['info']['meta_steps'] = _steps(rng, meta)
    chain = [base]
    for _ in range(rng.randint(1, max_derived)):
        parent = base if (style == 'wizard' and meta) else rng.choice(chain)
        chain.append(derive(rng, parent, mk_cls(), style, meta if meta else None, name=fresh('D')))
    return chain, style


def parent_index(chain, k):
    return chain.index(chain[k]['info']['inherits']['base'])


def history(rng, chain, lo=3, hi=6, ancestor_first=0.6):
    """indices into `chain`, with repeats: at least one derived class; with probability `ancestor_first` an ancestor of the first
    derived class of the history is used before it (the other order — derived class first — is as likely to matter)"""
    steps = [rng.randrange(len(chain)) for _ in range(rng.randint(lo, hi))]
    derived = list(range(1, len(chain)))
    if not any(s in derived for s in steps):
        steps[rng.randrange(1, len(steps))] = rng.choice(derived)
    if rng.random() < ancestor_first:
        fd = next(s for s in steps if s in derived)
        steps.insert(0, parent_index(chain, fd))
    return steps


def holder(chain, fresh=None):
    """a plain class naming every class of the family (materialises all of them in one module; never loaded itself)"""
    fresh = fresh or model.fresh
    return {'k': 'cls', 'info': {'name': fresh('H'), 'fields': [{'name': f'm{i}'} for i in range(len(chain))], 'wizard': False, 'meta': None},
            'ftys': [[f'm{i}', m] for i, m in enumerate(chain)]}


def describe(chain, steps):
    names = [c['info']['name'] for c in chain]
    parents = {c['info']['name']: c['info']['inherits']['base']['info']['name'] for c in chain[1:]}
    first_derived = next(q for q, k in enumerate(steps) if k > 0)
    anc_first = any(names[k] == parents[names[steps[first_derived]]] for k in steps[:first_derived])
    return {'classes': names, 'derives_from': parents, 'steps': [names[k] for k in steps]}, ('ancestor-first' if anc_first else 'derived-first')
