"""Histories: sequences of operations over families of dataclasses, run in forked children so that the library's
module-level state is pristine per run.  Used by C06 (call-history independence) and C07 (isolation).

Ops (JSON):
  {"op":"def", "ty": <cls type node>}                   define a class family (nested definitions included)
  {"op":"defsub", "name": N, "base": B, "fields": [[name, tyname, default_src]]}   subclass of an existing class
  {"op":"bind", "cls": name, "kind": "load"|"dump", "meta": {...}}                 LoadMeta/DumpMeta(**meta).bind_to(cls)
        optional "names": {setting: name}  the setting's value is the object of that name in the namespace (a module-level constant
                                           that several Metas refer to) instead of a fresh copy of meta[setting];
        optional "obj": name               ns[name].bind_to(cls): one LoadMeta / DumpMeta object bound to several classes ("meta" then
                                           only says what the object was made from)
  {"op":"load", "cls": name, "doc": <json>, "via": "fromdict"|"method"|"fromlist"|"method_list"|"json"|"json_list"|"yaml"|"toml"}
  {"op":"dump", "cls": name, "expr": <python expression building the instance in the family namespace>,
                "via": "asdict"|"method"|"to_json"|"list_to_json"|"yaml"|"toml", "drop_keys": [keys left out of the recorded dict, at any depth]}
  {"op":"src", "src": <python source>, "defines": [names], "requires": [names]}   free-form definitions (subclasses, mixins, hooks)
        optional "into": name              the source is executed in the module in which the class of that name was defined ("further
                                           down the same module": a class that earlier annotations refer to by forward reference, or a
                                           decorator applied to a class after the fact) instead of a module of its own
  {"op":"dumpnew", ...}  as dump (kept distinct for statistics: a novel value subtype)
"""
from __future__ import annotations

import collections
import dataclasses
import json
import os
import pickle
import sys
import traceback
import types

from harness import model


def _canon_obj(v):
    """canonical JSON-able description of a loaded object (types matter)"""
    try:
        return model.canon_py(model.enc_py(v, None, full_inst=False))
    except Exception:
        return ['repr', repr(v)]


def _err(e):
    from dataclass_wizard.errors import ParseError, MissingFields, MissingData, UnknownKeysError, JSONWizardError
    if isinstance(e, MissingData):
        return ['err', 'MissingData']
    if isinstance(e, ParseError):
        return ['err', 'ParseError']
    if isinstance(e, MissingFields):
        return ['err', 'MissingFields', sorted(e.missing_fields)]
    if isinstance(e, UnknownKeysError):
        k = e.unknown_keys
        return ['err', 'UnknownKeysError', sorted([k] if isinstance(k, str) else list(k))]
    if isinstance(e, JSONWizardError):
        return ['err', type(e).__name__]
    return ['err', 'raw:' + type(e).__name__]


def _drop_keys(v, keys):
    if isinstance(v, dict):
        return {k: _drop_keys(x, keys) for k, x in v.items() if k not in keys}
    if isinstance(v, list):
        return [_drop_keys(x, keys) for x in v]
    return v


class World:
    """executes ops in the current process"""

    def __init__(self):
        self.ns = {}
        self.n_mod = 0
        self.home = {}          # name -> the module object its (latest) definition was executed in
        exec(compile(model.PRELUDE + 'from harness.subtypes import *\nfrom datetime import timezone\n', '<hist-prelude>', 'exec', dont_inherit=True), self.ns)

    def do(self, op):
        from dataclass_wizard import fromdict, asdict, LoadMeta, DumpMeta
        k = op['op']
        try:
            if k == 'def':
                defs = collections.OrderedDict()
                model.ty_src(op['ty'], defs)
                src = '\n'.join(s for s in defs.values() if s)
                self._exec(src)
                return ['defined']
            if k == 'src':
                self._exec(op['src'], op.get('into'))
                return ['defined']
            if k == 'bind':
                cls = self.ns[op['cls']]
                if op.get('obj'):
                    self.ns[op['obj']].bind_to(cls)
                    return ['bound']
                meta = json.loads(json.dumps(op['meta']))
                for key, nm in (op.get('names') or {}).items():
                    meta[key] = self.ns[nm]
                (LoadMeta if op['kind'] == 'load' else DumpMeta)(**meta).bind_to(cls)
                return ['bound']
            if k == 'load':
                cls = self.ns[op['cls']]
                via = op.get('via', 'fromdict')
                doc = json.loads(json.dumps(op['doc']))
                if via == 'method':
                    return ['ok', _canon_obj(cls.from_dict(doc))]
                if via == 'fromlist':
                    from dataclass_wizard import fromlist
                    return ['ok', _canon_obj(list(fromlist(cls, [doc, json.loads(json.dumps(doc))])))]
                if via == 'method_list':
                    return ['ok', _canon_obj(list(cls.from_list([doc])))]
                if via == 'json':
                    return ['ok', _canon_obj(cls.from_json(json.dumps(doc)))]
                if via == 'json_list':
                    return ['ok', _canon_obj(list(cls.from_json(json.dumps([doc]))))]
                if via == 'yaml':
                    import yaml
                    return ['ok', _canon_obj(cls.from_yaml(yaml.safe_dump(doc, sort_keys=False)))]
                if via == 'toml':
                    import tomli_w
                    return ['ok', _canon_obj(cls.from_toml(tomli_w.dumps(doc)))]
                if via != 'fromdict':
                    raise ValueError(via)
                return ['ok', _canon_obj(fromdict(cls, doc))]
            if k in ('dump', 'dumpnew'):
                x = eval(op['expr'], self.ns)
                via = op.get('via', 'asdict')
                if via == 'method':
                    d = x.to_dict()
                elif via == 'to_json':
                    d = json.loads(x.to_json())
                elif via == 'list_to_json':
                    d = json.loads(type(x).list_to_json([x]))
                elif via == 'yaml':         # the text is read back with the plain parser, so that outcomes compare structurally
                    import yaml
                    d = yaml.safe_load(x.to_yaml())
                elif via == 'toml':
                    import tomllib
                    d = tomllib.loads(x.to_toml())
                elif via == 'asdict':
                    d = asdict(x)
                else:
                    raise ValueError(via)
                d = json.loads(json.dumps(d, default=repr))
                if op.get('drop_keys'):          # keys kept out of the record (C07: the tag keys of auto-tagged Union members)
                    d = _drop_keys(d, set(op['drop_keys']))
                return ['ok', d]
            raise ValueError(k)
        except Exception as e:
            if os.environ.get('VERIF_HIST_DEBUG'):
                traceback.print_exc()
            return _err(e)

    def _exec(self, src, into=None):
        if into:
            # "further down the module of class `into`": the names of that module are in scope, and what is defined now is visible
            # where the library resolves the forward references of `into` (sys.modules[into.__module__])
            mod = self.home[into]
            name = mod.__dict__['__name__']
        else:
            self.n_mod += 1
            name = f'dwv_hist_{os.getpid()}_{self.n_mod}'
            mod = types.ModuleType(name)
            mod.__dict__.update(self.ns)
            sys.modules[name] = mod
        before = dict(mod.__dict__)
        exec(compile(src, f'<{name}>', 'exec', dont_inherit=True), mod.__dict__)
        for k, v in mod.__dict__.items():
            if getattr(v, '__module__', None) == name or k not in self.ns:
                self.ns[k] = v
            if k not in before or before[k] is not v:
                self.home[k] = mod
                if into:
                    self.ns[k] = v
                    seen_by_library = sys.modules.get(getattr(self.ns[into], '__module__', None))
                    if seen_by_library is not None and seen_by_library is not mod:
                        seen_by_library.__dict__[k] = v


def _child(ops, w):
    code = 0
    try:
        import logging
        logging.disable(logging.CRITICAL)
        import warnings
        warnings.simplefilter('ignore')
        world = World()
        outs = [world.do(op) for op in ops]
        data = pickle.dumps(outs)
    except BaseException:
        data = pickle.dumps([['harness-error', traceback.format_exc()[-800:]]])
        code = 1
    try:
        with os.fdopen(w, 'wb') as f:
            f.write(data)
    finally:
        os._exit(code)


def run_forked(ops_list, jobs=None):
    """run each op sequence of `ops_list` in its own forked child; returns the list of outcome lists (in the order of `ops_list`).
    The children are independent of one another (each is forked from this process, which never uses the library itself), so up to
    `jobs` of them run at the same time; results are collected in order."""
    if jobs is None:
        jobs = int(os.environ.get('VERIF_HIST_JOBS') or min(4, os.cpu_count() or 1))
    results = []
    pending = collections.deque()            # (pid, read end), oldest first

    def reap():
        pid, r = pending.popleft()
        with os.fdopen(r, 'rb') as f:
            data = f.read()
        os.waitpid(pid, 0)
        try:
            results.append(pickle.loads(data))
        except Exception:
            results.append([['harness-error', 'no data']])
    for ops in ops_list:
        while len(pending) >= max(1, jobs):
            reap()
        r, w = os.pipe()
        pid = os.fork()
        if pid == 0:
            try:
                os.close(r)
                for _, r2 in pending:        # read ends of the siblings still running
                    os.close(r2)
            except BaseException:
                pass
            _child(ops, w)
        os.close(w)
        pending.append((pid, r))
    while pending:
        reap()
    return results


def classes_of(ty, acc=None):
    acc = acc if acc is not None else []
    k = ty['k']
    if k == 'cls':
        acc.append(ty['info']['name'])
        for _, ft in ty['ftys']:
            classes_of(ft, acc)
    elif k in ('namedtuple', 'typeddict'):
        for f in ty['fields']:
            classes_of(f[1], acc)
    else:
        for x in ty.get('a', []):
            classes_of(x, acc)
    return acc


def needed_defs(ops, i):
    """the definition-like ops (def / defsub / src / bind) that op i needs: those mentioning a class it (transitively) uses"""
    target = ops[i]
    provides = []          # (op index, set of class names defined)
    for j, op in enumerate(ops[:i]):
        if op['op'] == 'def':
            provides.append((j, set(classes_of(op['ty']))))
        elif op['op'] == 'src':
            provides.append((j, set(op['defines'])))
    need_names = set(target.get('uses') or [target.get('cls')])
    changed = True
    chosen = set()
    while changed:
        changed = False
        for j, names in provides:
            if j not in chosen and names & need_names:
                chosen.add(j)
                op = ops[j]
                extra = set(classes_of(op['ty'])) if op['op'] == 'def' else set(op.get('requires', [])) | set(op['defines'])
                if not extra <= need_names:
                    need_names |= extra
                changed = True
        # the objects a needed bind refers to by name
        for op in ops[:i]:
            if op['op'] == 'bind' and op['cls'] in need_names:
                refs = {nm for nm in [op.get('obj')] + list((op.get('names') or {}).values()) if nm}
                if not refs <= need_names:
                    need_names |= refs
                    changed = True
    # a class name defined twice: only the latest definition before op i is what the op needs
    latest = {}
    for j, names in provides:
        for nm in names:
            latest[nm] = j
    chosen = {j for j in chosen if any(latest.get(nm) == j for nm in dict(provides)[j])}
    out = []
    for j, op in enumerate(ops[:i]):
        if j in chosen:
            out.append(op)
        elif op['op'] == 'bind' and op['cls'] in need_names:
            out.append(op)
    return out
