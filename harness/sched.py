"""Deterministic thread scheduler for C20.

Thread bodies run one at a time; the points at which the running thread can be pre-empted are the `line` (or `opcode`)
trace events inside the library's own files and inside the code it generates (`<string>`).  A *plan* is a list of
segments `(thread, k)`: "let `thread` run for `k` events, then switch"; once the plan is used up the unfinished threads
run to completion in index order.  Every schedule runs in its own forked child, so the library's module-level state is
that of a process that has done nothing but the scenario's prelude.
"""
from __future__ import annotations

import os
import pickle
import select
import sys
import threading
import traceback

from harness import common as C

LIB = str(C.REPO / 'dataclass_wizard') + os.sep
INF = 10 ** 12


HANG_AFTER = 6.0       # seconds without any event / return after which a call counts as one that never returns


def run_schedule(bodies, plan, opcode=False, record=False, timeout=20.0, trace_extra=(), touch=None, block_after=0.12,
                 hang_after=None):
    """-> dict(results=[('ok', v)|('err', exc)], counts=[events per thread], log=[[ (file, line) ]], stuck=bool)

    `opcode`: False = line events of library files and generated code; True = opcode events of the same frames; a tuple of
    file-name prefixes = opcode events of the frames of those files only (nothing else is a pre-emption point).
    `trace_extra`: further file-name prefixes whose frames give line events (a lazily imported third-party module).
    `touch`: {(relative file, line): {table names}} (see `table_touch_lines`); a plan segment may then be
    `(thread, ('tbl', X, n))`: run `thread` until it is about to execute a line touching table X for (at least) the n-th time.
    A thread holding the baton that produces no event for `block_after` seconds (it waits for a lock that a pre-empted
    thread holds, e.g. the import lock of a module) is set aside: the baton goes to the next runnable thread and the blocked
    one queues up again at its first event after it wakes.
    """
    n = len(bodies)
    sems = [threading.Semaphore(0) for _ in range(n)]
    done = threading.Event()
    mu = threading.RLock()
    st = {'seg': 0, 'left': 0, 'switches': 0, 'target': None, 'cur': None, 'blocked_seen': 0}
    counts = [0] * n
    progress = [0] * n
    finished = [False] * n
    blocked = set()
    results = [None] * n
    logs = [[] for _ in range(n)]
    tcount = [dict() for _ in range(n)]
    plan = list(plan)
    only_files = tuple(opcode) if isinstance(opcode, (tuple, list)) else None
    opcode = bool(opcode)
    event_name = 'opcode' if opcode else 'line'
    trace_extra = tuple(trace_extra or ())
    relcache = {}

    def rel(code):
        r = relcache.get(code)
        if r is None:
            fn = code.co_filename
            r = relcache[code] = fn[len(LIB):] if fn.startswith(LIB) else fn
        return r

    def pick_next():
        """with mu held"""
        while st['seg'] < len(plan):
            t, k = plan[st['seg']]
            st['seg'] += 1
            if finished[t] or t in blocked:
                continue
            if isinstance(k, (tuple, list)):
                st['left'] = INF
                st['target'] = (k[1], k[2])
                return t
            if k > 0:
                st['left'] = k
                st['target'] = None
                return t
        for t in range(n):
            if not finished[t] and t not in blocked:
                st['left'] = INF
                st['target'] = None
                return t
        return None

    def switch_from(me):
        """called by the holder of the baton"""
        with mu:
            lost = st['cur'] != me          # the watcher took the baton away in the meantime
            if not lost:
                nxt = pick_next()
                if nxt == me:
                    return
                st['cur'] = nxt
                if nxt is not None:
                    st['switches'] += 1
                    sems[nxt].release()
                elif all(finished):
                    done.set()
        if lost:
            if not finished[me]:
                wake(me)
            else:
                with mu:
                    blocked.discard(me)
                    if st['cur'] is None and all(finished):
                        done.set()
        elif not finished[me]:
            sems[me].acquire()

    def wake(i):
        """thread i had been set aside as blocked and runs again: queue up for the baton"""
        with mu:
            blocked.discard(i)
            if st['cur'] is None:
                st['cur'] = i
                st['left'] = INF
                st['target'] = None
                return
        sems[i].acquire()

    def tracer_for(i):
        def local(frame, event, arg):
            if event == event_name:
                if i in blocked:
                    wake(i)
                counts[i] += 1
                progress[i] += 1
                if record:
                    logs[i].append((rel(frame.f_code), frame.f_lineno, frame.f_code.co_name))
                st['left'] -= 1
                if st['left'] <= 0:
                    switch_from(i)
                elif touch is not None:
                    tabs = touch.get((rel(frame.f_code), frame.f_lineno))
                    if tabs:
                        tc = tcount[i]
                        for x in tabs:
                            tc[x] = tc.get(x, 0) + 1
                        tg = st['target']
                        if tg is not None and tg[0] in tabs and tc[tg[0]] >= tg[1]:
                            switch_from(i)
            return local

        def glob(frame, event, arg):
            fn = frame.f_code.co_filename
            if only_files is not None:
                if fn.startswith(only_files):
                    frame.f_trace_opcodes = True
                    return local
                return None
            if fn.startswith(LIB) or fn == '<string>' or (trace_extra and fn.startswith(trace_extra)):
                if opcode:
                    frame.f_trace_opcodes = True
                return local
            return None
        return glob

    def worker(i):
        sems[i].acquire()
        sys.settrace(tracer_for(i))
        try:
            results[i] = ('ok', bodies[i]())
        except BaseException as e:          # noqa
            results[i] = ('err', e)
        finally:
            sys.settrace(None)
            with mu:
                finished[i] = True
                was_blocked = i in blocked
                blocked.discard(i)
                holder = st['cur'] == i
            if holder:
                switch_from(i)
            elif was_blocked:
                with mu:
                    if st['cur'] is None and all(finished):
                        done.set()

    if opcode:
        # CPython 3.12 turns instruction events on only in a sys.settrace() call made AFTER some frame has asked for them
        # (interp->f_opcode_trace_set): ask once here, or the thread that runs first would see no opcode event at all
        def _prime(frame, event, arg):
            frame.f_trace_opcodes = True
            return None
        sys.settrace(_prime)
        (lambda: None)()
        sys.settrace(None)
    threads = [threading.Thread(target=worker, args=(i,), daemon=True) for i in range(n)]
    for t in threads:
        t.start()
    with mu:
        first = pick_next()
        st['cur'] = first
    sems[first].release()
    # ---- the main thread watches for a baton holder that stopped producing events (blocked on a lock)
    import time
    t_end = time.time() + timeout
    last = (None, -1)
    since = time.time()
    ok = False
    while True:
        if done.wait(0.02):
            ok = True
            break
        now = time.time()
        if now > t_end:
            break
        with mu:
            c = st['cur']
            if c is None:
                continue
            sig = (c, progress[c])
            if sig != last:
                last, since = sig, now
                continue
            if now - since < block_after or finished[c]:
                continue
            if all(finished[t] or t in blocked or t == c for t in range(n)):
                # nobody else could run: keep waiting (a long C call, or a real deadlock -> `hang_after` / timeout)
                if hang_after is not None and now - since > hang_after:
                    break
                continue
            blocked.add(c)
            st['blocked_seen'] += 1
            nxt = pick_next()
            st['cur'] = nxt
            last, since = (None, -1), now
            if nxt is not None:
                st['switches'] += 1
                sems[nxt].release()
    return {'results': results, 'counts': counts, 'log': logs if record else None, 'stuck': not ok, 'switches': st['switches'],
            'blocked': st['blocked_seen']}


# ---------------------------------------------------------------------------------------------------------------
def canon_outcome(r):
    from harness.hist import _err, _canon_obj
    import dataclasses
    if r is None:
        return ['unfinished']
    if r[0] == 'err':
        e = r[1]
        o = _err(e)
        if o[1].startswith('raw:'):
            o = o + [str(e)[:120]]
        return o
    v = r[1]
    if dataclasses.is_dataclass(v) and not isinstance(v, type):
        return ['ok', _canon_obj(v)]
    try:
        import json
        return ['ok', json.loads(json.dumps(v, default=repr))]
    except Exception:
        return ['ok', repr(v)]


def run_case_in_child(scn, plan, opcode=False, record=False):
    """define the scenario's classes, run its prelude, then the threads under `plan`.  Called inside a forked child."""
    import logging
    import warnings
    logging.disable(logging.CRITICAL)
    warnings.simplefilter('ignore')
    ns = {}
    for k, v in (scn.get('env') or {}).items():
        os.environ[k] = v
    name = f'dwv_conc_{os.getpid()}'
    import types
    mod = types.ModuleType(name)
    sys.modules[name] = mod
    ns = mod.__dict__
    if scn.get('files') is not None:
        # {relative path: text} written below a fresh directory the scenario names as TMP (dotenv files, secrets directories)
        import tempfile
        tmp = tempfile.mkdtemp(prefix='dwv_c20_')
        for relp, text in scn['files'].items():
            path = os.path.join(tmp, relp)
            os.makedirs(os.path.dirname(path), exist_ok=True)
            with open(path, 'w') as fh:
                fh.write(text)
        for relp in scn.get('dirs') or []:
            os.makedirs(os.path.join(tmp, relp), exist_ok=True)
        ns['TMP'] = tmp
    exec(compile(scn['src'], f'<{name}>', 'exec', dont_inherit=True), ns)
    for stmt in scn.get('pre', []):
        exec(compile(stmt, '<pre>', 'exec', dont_inherit=True), ns)
    codes = [compile(expr, f'<thread{i}>', 'eval', dont_inherit=True) for i, expr in enumerate(scn['threads'])]
    bodies = [(lambda c=c: eval(c, ns)) for c in codes]
    trace_extra = ()
    if scn.get('fresh_modules'):
        unimport(scn['fresh_modules'])
        trace_extra = module_prefixes(scn['fresh_modules'])
    if opcode and scn.get('opcode_files'):
        opcode = tuple(LIB + f for f in scn['opcode_files'])
    touch = table_touch_lines() if any(isinstance(k, (tuple, list)) for _t, k in plan) else None
    # a thread waiting for a lock held by a pre-empted thread is expected where an import is in flight (import lock):
    # short patience there; elsewhere a long one, so that a slow machine does not make schedules irreproducible
    out = run_schedule(bodies, plan, opcode=opcode, record=record, trace_extra=trace_extra, touch=touch,
                       block_after=0.08 if scn.get('fresh_modules') else 0.5, hang_after=HANG_AFTER)
    # the follow-up calls: one after the other, each on a thread of its own that is none of the scenario's threads (the caller
    # of a library is not the thread that raced).  A call that has not returned after HANG_AFTER seconds is recorded as such -
    # an outcome no sequential order has - and the remaining ones are not started.
    post = []
    hung = out['stuck']
    for expr in scn.get('post', []):
        if hung:
            post.append(['not-run'])
            continue
        box = []

        def call(expr=expr, box=box):
            try:
                box.append(canon_outcome(('ok', eval(compile(expr, '<post>', 'eval', dont_inherit=True), ns))))
            except BaseException as e:      # noqa
                box.append(canon_outcome(('err', e)))
        th = threading.Thread(target=call, daemon=True)
        th.start()
        th.join(HANG_AFTER)
        if box:
            post.append(box[0])
        else:
            hung = True
            post.append(['never-returned'])
    if scn.get('files') is not None:
        import shutil
        shutil.rmtree(ns['TMP'], ignore_errors=True)
    return {'outcomes': [canon_outcome(r) for r in out['results']], 'post': post, 'counts': out['counts'], 'log': out['log'],
            'stuck': out['stuck'], 'switches': out['switches'], 'blocked': out.get('blocked', 0), 'hung': hung}


# ---------------------------------------------------------------------------------------------------------------
_TOUCH = {}


def table_touch_lines(files=None):
    """{(file relative to the package, line): {name: writes?}}: the lines of the library that touch one of the module-level tables of
    class_helper.py — a subscript of the table, an `in` / `not in` test against it, a method call on it (.get / .pop /
    .add / .setdefault / ...), an iteration over it.  Read off the source with `ast`, so it follows the tree under test."""
    import ast
    root = C.REPO / 'dataclass_wizard'
    key = str(root)
    if key in _TOUCH:
        return _TOUCH[key]
    tables, autoviv = set(), set()
    tree = ast.parse((root / 'class_helper.py').read_text())
    for node in tree.body:
        tg, val = None, None
        if isinstance(node, ast.Assign) and len(node.targets) == 1 and isinstance(node.targets[0], ast.Name):
            tg, val = node.targets[0].id, node.value
        elif isinstance(node, ast.AnnAssign) and isinstance(node.target, ast.Name) and node.value is not None:
            tg, val = node.target.id, node.value
        if tg is None:
            continue
        if isinstance(val, (ast.Dict, ast.Set)) or (
                isinstance(val, ast.Call) and isinstance(val.func, (ast.Name, ast.Attribute))
                and (val.func.id if isinstance(val.func, ast.Name) else val.func.attr)
                in ('dict', 'set', 'defaultdict', 'OrderedDict', 'WeakKeyDictionary', 'WeakSet', 'DictWithLowerStore')):
            tables.add(tg)
            if isinstance(val, ast.Call) and (val.func.id if isinstance(val.func, ast.Name) else val.func.attr) == 'defaultdict':
                autoviv.add(tg)
    out = {}

    def is_tab(n):
        return isinstance(n, ast.Name) and n.id in tables

    def scan(scope, relf, alias):
        """touches inside `scope` (a module or a function body); `alias`: local name -> tables it may stand for"""
        def tabs_of(n):
            if isinstance(n, ast.Name):
                if n.id in tables:
                    return {n.id}
                return alias.get(n.id, ())
            return ()
        for node in ast.walk(scope):
            names, write = (), False
            if isinstance(node, ast.Subscript):
                names = tabs_of(node.value)
                # reading a missing key of a defaultdict stores it
                write = isinstance(node.ctx, (ast.Store, ast.Del)) or any(x in autoviv for x in names)
            elif isinstance(node, ast.Compare) and any(isinstance(o, (ast.In, ast.NotIn)) for o in node.ops):
                names = set().union(*[tabs_of(c) for c in node.comparators])
            elif isinstance(node, ast.Call) and isinstance(node.func, ast.Attribute):
                names = tabs_of(node.func.value)
                write = node.func.attr in ('pop', 'popitem', 'add', 'setdefault', 'update', 'clear', 'discard', 'remove', '__setitem__')
            elif isinstance(node, (ast.For, ast.comprehension)):
                names = tabs_of(node.iter)
            if names:
                ln = node.iter.lineno if isinstance(node, ast.comprehension) else node.lineno
                d = out.setdefault((relf, ln), {})
                for x in names:
                    d[x] = d.get(x, False) or write

    for path in sorted(root.rglob('*.py')):
        try:
            t = ast.parse(path.read_text())
        except (SyntaxError, UnicodeDecodeError):
            continue
        relf = str(path.relative_to(root))
        scan(t, relf, {})
        # a function that binds a table to a local name (`cls_to_loader = CLASS_TO_LOADER`) touches it through that name
        for fn in ast.walk(t):
            if isinstance(fn, (ast.FunctionDef, ast.AsyncFunctionDef)):
                alias = {}
                for node in ast.walk(fn):
                    if isinstance(node, ast.Assign) and is_tab(node.value):
                        for tg in node.targets:
                            if isinstance(tg, ast.Name):
                                alias.setdefault(tg.id, set()).add(node.value.id)
                if alias:
                    scan(fn, relf, alias)
    _TOUCH[key] = out
    return out


def module_prefixes(names):
    """file-name prefixes of the (not yet imported) top-level modules / packages `names`"""
    import importlib.util
    out = []
    for m in names:
        try:
            spec = importlib.util.find_spec(m)
        except (ImportError, ValueError):
            spec = None
        if spec is None:
            continue
        if spec.submodule_search_locations:
            out += [str(p) + os.sep for p in spec.submodule_search_locations]
        elif spec.origin:
            out.append(spec.origin)
    return tuple(out)


def unimport(names):
    """put the process back into the state in which the optional modules `names` have not been imported: drop them (and
    their submodules) from sys.modules and give every `LazyLoader` of the library that stands for one of them its pristine
    attribute dictionary back (the loader copies the module's namespace into its own on first use)."""
    from dataclass_wizard.utils.lazy_loader import LazyLoader
    names = set(names)
    loaders = []
    for mname, mod in list(sys.modules.items()):
        if mod is None or not (mname == 'dataclass_wizard' or mname.startswith('dataclass_wizard.')):
            continue
        for attr, val in list(vars(mod).items()):
            if isinstance(val, LazyLoader) and val.__dict__.get('__name__') in names and val not in loaders:
                loaders.append(val)
    for ll in loaders:
        d = ll.__dict__
        fresh = LazyLoader(d['_parent_module_globals'], d['__name__'], d.get('_extra'), d.get('_local_name'), d.get('_warning'))
        # `_local_name` defaults to the name; keep the original one so that the parent's global is found again
        fresh.__dict__['_local_name'] = d['_local_name']
        pg, local = d['_parent_module_globals'], d['_local_name']
        d.clear()
        d.update(fresh.__dict__)
        if local in pg and not isinstance(pg[local], LazyLoader):
            pg[local] = ll
    for mname in list(sys.modules):
        if mname in names or mname.split('.')[0] in names:
            del sys.modules[mname]


def _child(fn, item, w):
    code = 0
    try:
        data = pickle.dumps(fn(item))
    except BaseException:       # noqa
        data = pickle.dumps({'harness_error': traceback.format_exc()[-1500:]})
        code = 1
    try:
        with os.fdopen(w, 'wb') as f:
            f.write(data)
    finally:
        os._exit(code)


def fork_map(fn, items, nproc=None, timeout=60.0, stop=None):
    """fn(item) evaluated in one fresh forked child per item, up to `nproc` at a time; results in order.
    `stop(result)`: called with every result as it arrives; once it has returned true no further child is started and the
    items not started get the result {'skipped': True}."""
    nproc = nproc or min(16, os.cpu_count() or 4)
    results = [None] * len(items)
    pending = {}        # fd -> (index, pid, chunks)
    nxt = 0
    import time
    stopped = False
    while (nxt < len(items) and not stopped) or pending:
        while nxt < len(items) and len(pending) < nproc and not stopped:
            r, w = os.pipe()
            pid = os.fork()
            if pid == 0:
                os.close(r)
                for fd in list(pending):
                    try:
                        os.close(fd)
                    except OSError:
                        pass
                _child(fn, items[nxt], w)
            os.close(w)
            pending[r] = (nxt, pid, [], time.time())
            nxt += 1
        ready, _, _ = select.select(list(pending), [], [], 1.0)
        now = time.time()
        for fd in ready:
            data = os.read(fd, 1 << 20)
            idx, pid, chunks, t0 = pending[fd]
            if data:
                chunks.append(data)
                continue
            os.close(fd)
            os.waitpid(pid, 0)
            del pending[fd]
            try:
                results[idx] = pickle.loads(b''.join(chunks))
            except Exception:
                results[idx] = {'harness_error': 'no data from child'}
            if stop is not None and not stopped and stop(results[idx]):
                stopped = True
        for fd, (idx, pid, chunks, t0) in list(pending.items()):
            if now - t0 > timeout:
                try:
                    os.kill(pid, 9)
                except OSError:
                    pass
                os.close(fd)
                os.waitpid(pid, 0)
                del pending[fd]
                results[idx] = {'stuck': True, 'outcomes': None, 'counts': None, 'log': None, 'post': None, 'switches': 0}
    for i in range(nxt, len(items)):
        results[i] = {'skipped': True}
    return results
