"""Deterministic thread scheduler for C20.

Thread bodies run one at a time; the points at which the running thread can be pre-empted are the `line` (or `opcode`)
trace events inside the library's own files and inside the code it generates (`<string>`).  A *plan* is a list of
segments `(thread, k)`: "let `thread` run for `k` events, then switch"; once the plan is used up the unfinished threads
run to completion in index order.  Every schedule runs in its own forked child, so the library's module-level state is
that of a process that has done nothing but the scenario's prelude.
"""
from __future__ import annotations

import os
import pickle
import select
import sys
import threading
import traceback

from harness import common as C

LIB = str(C.REPO / 'dataclass_wizard') + os.sep
INF = 10 ** 12


def run_schedule(bodies, plan, opcode=False, record=False, timeout=20.0):
    """-> dict(results=[('ok', v)|('err', exc)], counts=[events per thread], log=[[ (file, line) ]], stuck=bool)"""
    n = len(bodies)
    sems = [threading.Semaphore(0) for _ in range(n)]
    main_sem = threading.Semaphore(0)
    st = {'seg': 0, 'left': 0, 'switches': 0}
    counts = [0] * n
    finished = [False] * n
    results = [None] * n
    logs = [[] for _ in range(n)]
    plan = list(plan)
    event_name = 'opcode' if opcode else 'line'

    def pick_next():
        while st['seg'] < len(plan):
            t, k = plan[st['seg']]
            st['seg'] += 1
            if not finished[t] and k > 0:
                st['left'] = k
                return t
        for t in range(n):
            if not finished[t]:
                st['left'] = INF
                return t
        return None

    def switch_from(me):
        nxt = pick_next()
        if nxt == me:
            return
        if nxt is None:
            main_sem.release()
            return
        st['switches'] += 1
        sems[nxt].release()
        if not finished[me]:
            sems[me].acquire()

    def tracer_for(i):
        def local(frame, event, arg):
            if event == event_name:
                counts[i] += 1
                if record:
                    fn = frame.f_code.co_filename
                    logs[i].append((fn[len(LIB):] if fn.startswith(LIB) else fn, frame.f_lineno, frame.f_code.co_name))
                st['left'] -= 1
                if st['left'] <= 0:
                    switch_from(i)
            return local

        def glob(frame, event, arg):
            fn = frame.f_code.co_filename
            if fn.startswith(LIB) or fn == '<string>':
                if opcode:
                    frame.f_trace_opcodes = True
                return local
            return None
        return glob

    def worker(i):
        sems[i].acquire()
        sys.settrace(tracer_for(i))
        try:
            results[i] = ('ok', bodies[i]())
        except BaseException as e:          # noqa
            results[i] = ('err', e)
        finally:
            sys.settrace(None)
            finished[i] = True
            switch_from(i)

    threads = [threading.Thread(target=worker, args=(i,), daemon=True) for i in range(n)]
    for t in threads:
        t.start()
    first = pick_next()
    sems[first].release()
    ok = main_sem.acquire(timeout=timeout)
    return {'results': results, 'counts': counts, 'log': logs if record else None, 'stuck': not ok, 'switches': st['switches']}


# ---------------------------------------------------------------------------------------------------------------
def canon_outcome(r):
    from harness.hist import _err, _canon_obj
    import dataclasses
    if r is None:
        return ['unfinished']
    if r[0] == 'err':
        e = r[1]
        o = _err(e)
        if o[1].startswith('raw:'):
            o = o + [str(e)[:120]]
        return o
    v = r[1]
    if dataclasses.is_dataclass(v) and not isinstance(v, type):
        return ['ok', _canon_obj(v)]
    try:
        import json
        return ['ok', json.loads(json.dumps(v, default=repr))]
    except Exception:
        return ['ok', repr(v)]


def run_case_in_child(scn, plan, opcode=False, record=False):
    """define the scenario's classes, run its prelude, then the threads under `plan`.  Called inside a forked child."""
    import logging
    import warnings
    logging.disable(logging.CRITICAL)
    warnings.simplefilter('ignore')
    ns = {}
    for k, v in (scn.get('env') or {}).items():
        os.environ[k] = v
    name = f'dwv_conc_{os.getpid()}'
    import types
    mod = types.ModuleType(name)
    sys.modules[name] = mod
    ns = mod.__dict__
    exec(compile(scn['src'], f'<{name}>', 'exec', dont_inherit=True), ns)
    for stmt in scn.get('pre', []):
        exec(compile(stmt, '<pre>', 'exec', dont_inherit=True), ns)
    codes = [compile(expr, f'<thread{i}>', 'eval', dont_inherit=True) for i, expr in enumerate(scn['threads'])]
    bodies = [(lambda c=c: eval(c, ns)) for c in codes]
    out = run_schedule(bodies, plan, opcode=opcode, record=record)
    post = []
    for expr in scn.get('post', []):
        try:
            post.append(canon_outcome(('ok', eval(compile(expr, '<post>', 'eval', dont_inherit=True), ns))))
        except BaseException as e:      # noqa
            post.append(canon_outcome(('err', e)))
    return {'outcomes': [canon_outcome(r) for r in out['results']], 'post': post, 'counts': out['counts'], 'log': out['log'],
            'stuck': out['stuck'], 'switches': out['switches']}


def _child(fn, item, w):
    code = 0
    try:
        data = pickle.dumps(fn(item))
    except BaseException:       # noqa
        data = pickle.dumps({'harness_error': traceback.format_exc()[-1500:]})
        code = 1
    try:
        with os.fdopen(w, 'wb') as f:
            f.write(data)
    finally:
        os._exit(code)


def fork_map(fn, items, nproc=None, timeout=60.0):
    """fn(item) evaluated in one fresh forked child per item, up to `nproc` at a time; results in order"""
    nproc = nproc or min(16, os.cpu_count() or 4)
    results = [None] * len(items)
    pending = {}        # fd -> (index, pid, chunks)
    nxt = 0
    import time
    while nxt < len(items) or pending:
        while nxt < len(items) and len(pending) < nproc:
            r, w = os.pipe()
            pid = os.fork()
            if pid == 0:
                os.close(r)
                for fd in list(pending):
                    try:
                        os.close(fd)
                    except OSError:
                        pass
                _child(fn, items[nxt], w)
            os.close(w)
            pending[r] = (nxt, pid, [], time.time())
            nxt += 1
        ready, _, _ = select.select(list(pending), [], [], 1.0)
        now = time.time()
        for fd in ready:
            data = os.read(fd, 1 << 20)
            idx, pid, chunks, t0 = pending[fd]
            if data:
                chunks.append(data)
                continue
            os.close(fd)
            os.waitpid(pid, 0)
            del pending[fd]
            try:
                results[idx] = pickle.loads(b''.join(chunks))
            except Exception:
                results[idx] = {'harness_error': 'no data from child'}
        for fd, (idx, pid, chunks, t0) in list(pending.items()):
            if now - t0 > timeout:
                try:
                    os.kill(pid, 9)
                except OSError:
                    pass
                os.close(fd)
                os.waitpid(pid, 0)
                del pending[fd]
                results[idx] = {'stuck': True, 'outcomes': None, 'counts': None, 'log': None, 'post': None, 'switches': 0}
    return results
